------------------------------- MODULE MCStore -------------------------------
EXTENDS HcStore, Json
\* everything but the history ghost
NoHist == <<slot, cells, bfFile, treeFile, dataFile, mem, pc, cur, abs, pend, ncalls, ncrash, ntorn, nextv, nextid>>
\* behaviour export: prints one JSON line per distinct final state (first path found to it)
Export == Done => PrintT(<<"BEHAVIOUR", ToJson(hist)>>)
=============================================================================
