------------------------------ MODULE Bitfield ------------------------------
(***************************************************************************)
(* The paged bitfield (src/bitfield/dynamic.rs) as the core uses it:       *)
(* which blocks are held.  HcStore treats a page as "the held indices of   *)
(* that page, written when dirty"; this module is one level closer to the  *)
(* code and exists because that level has case analysis of its own:        *)
(*   - pages are allocated lazily; set_range allocates a page even when it *)
(*     clears (an allocated, empty page), a page absent from memory reads  *)
(*     as zeros;                                                           *)
(*   - a page carries a dirty flag and is queued for the next flush only   *)
(*     when a bit changed while the flag was down; flush writes the queued *)
(*     pages in full at page * PageBytes and lowers the flags;             *)
(*   - open cuts the stored bytes into pages at PageBytes strides: every   *)
(*     page up to the end of the file exists afterwards;                   *)
(*   - index_of(true, p) / last_index_of(true, p) - used by clear to find  *)
(*     the hole to punch into the data store - look at p's own page first  *)
(*     and then walk the allocated pages after / before it in order.       *)
(* The log of updates since the last flush stands for the oplog entries    *)
(* that the core replays on open (HcStore models those in full); flushing  *)
(* follows the core's cadence: the first mutating call of an instance and  *)
(* every fourth after it.                                                  *)
(*                                                                         *)
(* Mut selects the code as written ("none") or a deliberate deviation that *)
(* TLC must refute.                                                        *)
(***************************************************************************)
EXTENDS Naturals, Integers, Sequences, FiniteSets, TLC

CONSTANTS PageBits,   \* indices per page
          NPages,     \* pages
          MaxCalls,   \* mutating calls per behaviour
          Mut

N == PageBits * NPages
Idx == 0..(N - 1)
Pages == 0..(NPages - 1)
PageOf(i) == i \div PageBits
PageIdx(g) == {i \in Idx : PageOf(i) = g}
Min(S) == CHOOSE x \in S : \A y \in S : x <= y
Max(S) == CHOOSE x \in S : \A y \in S : y <= x

VARIABLES alive,    \* is there an instance?
          alloc,    \* pages allocated in memory
          bits,     \* indices set in memory
          pdirty,   \* pages whose dirty flag is up
          queue,    \* pages queued for the next flush
          skip,     \* calls until the next flush
          len,      \* length of the log (appends set bits at the end only)
          flen,     \* persistent: pages the bitfield store covers
          fbits,    \* persistent: bits set in the store
          log,      \* persistent: updates since the last flush (oplog entries)
          S,        \* ghost: the set the API promises
          ncalls, hist
vars == <<alive, alloc, bits, pdirty, queue, skip, len, flen, fbits, log, S, ncalls, hist>>

Init ==
  /\ alive = TRUE /\ alloc = {} /\ bits = {} /\ pdirty = {} /\ queue = {} /\ skip = 0 /\ len = 0
  /\ flen = 0 /\ fbits = {} /\ log = <<>> /\ S = {} /\ ncalls = 0 /\ hist = <<>>

---------------------------------------------------------------------------
(* the operations of the code, as functions of the in-memory state *)

Range(s, n) == s..(s + n - 1)

\* set_range(s, n, v): allocates every page it touches; a page is queued when one of its bits changed
\* while its dirty flag was down
SetRange(st, s, n, v) ==
  LET touched == {PageOf(i) : i \in Range(s, n)}
      nb == IF v THEN st.bits \cup Range(s, n) ELSE st.bits \ Range(s, n)
      changed == {g \in touched : nb \cap PageIdx(g) # st.bits \cap PageIdx(g)}
      fresh == {g \in changed : g \notin st.pdirty} IN
  [st EXCEPT !.alloc = @ \cup touched, !.bits = nb, !.pdirty = @ \cup fresh, !.queue = @ \cup fresh]

\* order in which "the allocated pages after / before page g" are visited
After(al, g) == {h \in al : h > g}
\* index_of(true, p)
IndexOfTrue(st, p) ==
  LET g == PageOf(p)
      own == {i \in st.bits \cap PageIdx(g) : i >= p} IN
  IF g \in st.alloc /\ own # {} THEN Min(own)
  ELSE LET later == {h \in After(st.alloc, g) : st.bits \cap PageIdx(h) # {}} IN
       IF later = {} THEN -1
       ELSE LET h == IF Mut = "unsorted" /\ Cardinality(After(st.alloc, g)) >= 3
                     THEN \* map order instead of page order: the second and third page swap
                          LET o == After(st.alloc, g)
                              first == Min(o)
                              second == Min(o \ {first})
                              third == Min(o \ {first, second})
                              perm == <<first, third, second>>
                              cand == {k \in 1..3 : st.bits \cap PageIdx(perm[k]) # {}} IN
                          IF cand # {} THEN perm[Min(cand)] ELSE Min(later)
                     ELSE Min(later) IN
            Min(st.bits \cap PageIdx(h))
\* last_index_of(true, p)
LastIndexOfTrue(st, p) ==
  LET g == PageOf(p)
      own == {i \in st.bits \cap PageIdx(g) : i <= p} IN
  IF g \in st.alloc /\ own # {} THEN Max(own)
  ELSE LET earlier == {h \in st.alloc : h < g /\ st.bits \cap PageIdx(h) # {}} IN
       IF earlier = {} THEN -1 ELSE Max(st.bits \cap PageIdx(Max(earlier)))

Mem == [alloc |-> alloc, bits |-> bits, pdirty |-> pdirty, queue |-> queue]

---------------------------------------------------------------------------
(* calls *)

\* flush: every queued page is written in full; the file grows to cover it
Flushed(st) ==
  LET w == IF Mut = "skip_empty" THEN {g \in st.queue : st.bits \cap PageIdx(g) # {}} ELSE st.queue IN
  [mem |-> [st EXCEPT !.queue = {}, !.pdirty = IF Mut = "keep_dirty" THEN @ ELSE @ \ st.queue],
   fbits |-> (fbits \ UNION {PageIdx(g) : g \in w}) \cup (st.bits \cap UNION {PageIdx(g) : g \in w}),
   flen |-> IF w = {} THEN flen ELSE IF Max(w) + 1 > flen THEN Max(w) + 1 ELSE flen]

\* a mutating call: log the update, apply it, flush when due
Call(s, n, v, h) ==
  /\ alive /\ ncalls < MaxCalls
  /\ LET st == SetRange(Mem, s, n, v) IN
     IF skip = 0
     THEN LET f == Flushed(st) IN
          /\ alloc' = f.mem.alloc /\ bits' = f.mem.bits /\ pdirty' = f.mem.pdirty /\ queue' = f.mem.queue
          /\ fbits' = f.fbits /\ flen' = f.flen /\ log' = <<>> /\ skip' = 3
     ELSE /\ alloc' = st.alloc /\ bits' = st.bits /\ pdirty' = st.pdirty /\ queue' = st.queue
          /\ log' = Append(log, <<s, n, v>>) /\ skip' = skip - 1
          /\ UNCHANGED <<fbits, flen>>
  /\ S' = IF v THEN S \cup Range(s, n) ELSE S \ Range(s, n)
  /\ ncalls' = ncalls + 1 /\ hist' = Append(hist, h)
  /\ UNCHANGED alive

AppendBlocks(n) ==
  /\ n >= 1 /\ len + n <= N
  /\ Call(len, n, TRUE, <<"append", len, n>>)
  /\ len' = len + n

\* clear(s, e): the hole punched into the data store reaches from behind the last held block
\* before s to the first held block from e on; both come from the bitfield *after* the update
Clear(s, e) ==
  /\ s < e /\ s < len /\ e <= len
  /\ Call(s, e - s, FALSE, <<"clear", s, e>>)
  /\ UNCHANGED len

Close == /\ alive /\ alive' = FALSE /\ hist' = Append(hist, <<"close">>)
         /\ UNCHANGED <<alloc, bits, pdirty, queue, skip, len, flen, fbits, log, S, ncalls>>

\* open: pages from the store at PageBytes strides, then the logged updates are replayed
RECURSIVE Replay(_, _)
Replay(st, es) == IF es = <<>> THEN st ELSE Replay(SetRange(st, es[1][1], es[1][2], es[1][3]), Tail(es))
Loaded ==
  IF Mut = "open_stride"
  THEN \* page number from the wrong constant: every chunk lands on page 0, the last one wins
       [alloc |-> IF flen = 0 THEN {} ELSE {0},
        bits |-> IF flen = 0 THEN {} ELSE {i - (flen - 1) * PageBits : i \in fbits \cap PageIdx(flen - 1)},
        pdirty |-> {}, queue |-> {}]
  ELSE [alloc |-> 0..(flen - 1), bits |-> fbits, pdirty |-> {}, queue |-> {}]
Open ==
  /\ ~alive /\ alive' = TRUE
  /\ LET st == Replay(Loaded, log) IN
     alloc' = st.alloc /\ bits' = st.bits /\ pdirty' = st.pdirty /\ queue' = st.queue
  /\ skip' = 0 /\ hist' = Append(hist, <<"open">>)
  /\ UNCHANGED <<len, flen, fbits, log, S, ncalls>>

Next == \/ \E n \in 1..N : AppendBlocks(n)
        \/ \E s \in Idx, e \in 1..N : Clear(s, e)
        \/ Close \/ Open
Spec == Init /\ [][Next]_vars

---------------------------------------------------------------------------
(* properties *)

\* has(i) is exact (C08), for the live instance
MemExact == alive => bits = S
\* ... and for what a reopen would reconstruct, in every state
RecoverExact == Replay(Loaded, log).bits = S
\* the searches clear() relies on agree with their meaning on the set
IndexOfOK ==
  alive => \A p \in Idx :
    /\ IndexOfTrue(Mem, p) = (IF {i \in S : i >= p} = {} THEN -1 ELSE Min({i \in S : i >= p}))
    /\ LastIndexOfTrue(Mem, p) = (IF {i \in S : i <= p} = {} THEN -1 ELSE Max({i \in S : i <= p}))
\* held blocks lie below the length
Below == S \subseteq 0..(len - 1)

Done == ncalls = MaxCalls /\ alive
=============================================================================
