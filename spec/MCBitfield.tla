----------------------------- MODULE MCBitfield -----------------------------
EXTENDS Bitfield, Json
NoHist == <<alive, alloc, bits, pdirty, queue, skip, len, flen, fbits, log, S, ncalls>>
\* one line per distinct final state (first path found to it), for replay through the real crate
Export == Done => PrintT(<<"BFHIST", ToJson(hist)>>)
=============================================================================
