SPECIFICATION Spec
CONSTANTS Sizes <- MCSizes7
          Mut = "none"
VIEW NoHist
INVARIANTS HonestAccepted StoredTrue ForgeSound
CHECK_DEADLOCK FALSE
