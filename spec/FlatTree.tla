------------------------------ MODULE FlatTree ------------------------------
(***************************************************************************)
(* Flat in-order tree arithmetic (DESIGN 2.1): leaves at even indices,     *)
(* parents at odd ones; node i at depth d covers 2^d leaves.               *)
(***************************************************************************)
EXTENDS Naturals, Integers, Sequences, FiniteSets

Pow2(n) == LET F[k \in 0..n] == IF k = 0 THEN 1 ELSE 2 * F[k - 1] IN F[n]

\* number of trailing one bits of i
Depth(i) == LET F[x \in 0..i] == IF x % 2 = 0 THEN 0 ELSE 1 + F[x \div 2] IN F[i]
Offset(i) == i \div Pow2(Depth(i) + 1)
Index(d, o) == o * Pow2(d + 1) + Pow2(d) - 1
Parent(i) == LET d == Depth(i) IN Index(d + 1, Offset(i) \div 2)
Sibling(i) == LET d == Depth(i) o == Offset(i) IN Index(d, IF o % 2 = 0 THEN o + 1 ELSE o - 1)
IsLeft(i) == Offset(i) % 2 = 0
LeftChild(i) == LET d == Depth(i) IN Index(d - 1, 2 * Offset(i))       \* only for odd i
RightChild(i) == LET d == Depth(i) IN Index(d - 1, 2 * Offset(i) + 1)  \* only for odd i
LeftSpan(i) == i - (Pow2(Depth(i)) - 1)
RightSpan(i) == i + (Pow2(Depth(i)) - 1)
\* number of flat indices a node spans on each side incl. itself: "factor" of the iterator
Factor(i) == Pow2(Depth(i) + 1)
Contains(i, j) == LeftSpan(i) <= j /\ j <= RightSpan(i)
\* leaves (block indices) under node i
Leaves(i) == {b \in (LeftSpan(i) \div 2)..(RightSpan(i) \div 2) : TRUE}

\* full roots of a tree with n leaves (head index 2n), left to right
RECURSIVE FullRootsFrom(_, _)
FullRootsFrom(base, n) ==
  IF n = 0 THEN <<>>
  ELSE LET d == CHOOSE d \in 0..31 : Pow2(d) <= n /\ n < Pow2(d + 1)
           root == base + Pow2(d) - 1
       IN <<root>> \o FullRootsFrom(base + Pow2(d + 1), n - Pow2(d))
FullRoots(n) == FullRootsFrom(0, n)

\* all complete nodes of a tree with n leaves
FullNodes(n) == {i \in 0..(2 * n) : RightSpan(i) < 2 * n}
\* nodes completed by appending leaves from..to-1 to a tree of `from` leaves
NewNodes(from, to) == FullNodes(to) \ FullNodes(from)

\* sanity lemmas, evaluated once by TLC for small indices
ASSUME \A i \in 0..62 : /\ Index(Depth(i), Offset(i)) = i
                        /\ Sibling(Sibling(i)) = i
                        /\ Parent(i) = Parent(Sibling(i))
                        /\ Contains(Parent(i), i)
ASSUME \A i \in {j \in 0..62 : j % 2 = 1} : /\ Parent(LeftChild(i)) = i /\ Parent(RightChild(i)) = i
                                            /\ LeftSpan(LeftChild(i)) = LeftSpan(i)
                                            /\ RightSpan(RightChild(i)) = RightSpan(i)
ASSUME \A n \in 0..20 :
         LET r == FullRoots(n) IN
         /\ \A k \in 1..Len(r) : RightSpan(r[k]) < 2 * n
         /\ UNION {Leaves(r[k]) : k \in 1..Len(r)} = 0..(n - 1)
         /\ \A k \in 1..(Len(r) - 1) : RightSpan(r[k]) + 2 = LeftSpan(r[k + 1])
=============================================================================
