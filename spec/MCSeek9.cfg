SPECIFICATION SSpec
CONSTANTS Sizes <- MCSizes9
          Mut = "none"
VIEW NoHist
CONSTRAINT ShortHist
INVARIANTS SeekAccepted SeekInside SeekUpAccepted PartialAccepted StoredTrue
CHECK_DEADLOCK FALSE
