SPECIFICATION Spec
CONSTANTS MaxLen = 2
          MaxSubs = 1
CONSTRAINT Bound
INVARIANTS TypeOK ContigExact ReplicaBelowTruth RunsOK
PROPERTIES AppendOnly ReadOnlyFrozen
CHECK_DEADLOCK FALSE
