SPECIFICATION Spec
CONSTANTS MaxLen = 2
          MaxSubs = 1
CONSTRAINT Bound
INVARIANTS SealedReadOnly TypeOK ContigExact ReplicaBelowTruth RunsOK
PROPERTIES AppendOnly ReadOnlyFrozen
CHECK_DEADLOCK FALSE
