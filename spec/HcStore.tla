------------------------------- MODULE HcStore -------------------------------
(***************************************************************************)
(* Implementation-shaped model of hypercore's storage protocol             *)
(* (DESIGN 2.3): one action per storage operation of src/core.rs and       *)
(* src/oplog/mod.rs, so that every crash point of the code is a state.     *)
(*                                                                         *)
(* Persistent state (what survives a crash)                                *)
(*   slot[1..2]  the two oplog header slots: st ("none" | "ok" | "bad"),   *)
(*               header bit, tree length, contiguous-length hint, secret   *)
(*   cells       the oplog entries region as a sequence of cells; an entry *)
(*               occupies Sz(e) consecutive cells, so that overwriting at  *)
(*               the cursor leaves aligned or misaligned remnants behind   *)
(*   bfFile      the bitfield store (set of indices whose bit is set),     *)
(*               written page by page (PageBits indices per page)          *)
(*   treeFile    block index -> version of the tree nodes completed by     *)
(*               that block (0: absent or garbage)                         *)
(*   dataFile    block index -> version of the stored bytes (0: hole)      *)
(* Volatile state: mem (the instance), pc/cur (program counter and         *)
(* arguments of the call in progress).                                     *)
(* Ghost state: abs (the committed abstract view, = HcAbs's view),         *)
(* pend (before/after views of the call in progress), counters.            *)
(*                                                                         *)
(* Block contents are versions drawn from a counter, so that an index      *)
(* re-used after a crash that lost an uncommitted append is told apart.    *)
(*                                                                         *)
(* Role = "writer": the log's owner (append, clear, make_read_only).        *)
(* Role = "replica": a core without the secret key that applies proofs     *)
(* (a block, an upgrade to the remote writer's current length, or both)    *)
(* received from a writer that grows by itself (Grow); block i of the      *)
(* remote log has version i + 1, and the roots of the tree of length L are *)
(* the tree item RootId(L).                                                *)
(*                                                                         *)
(* The constant Mut selects the intended design ("none") or one deliberate *)
(* deviation; each deviation must make TLC produce a counterexample        *)
(* (non-vacuity, and regression scenarios for the crate).                  *)
(***************************************************************************)
EXTENDS Naturals, Integers, Sequences, FiniteSets, TLC, StoreOrder

CONSTANTS MaxLen,      \* blocks ever appended
          MaxCalls,    \* API calls per behaviour
          MaxCrashes,  \* crashes per behaviour
          MaxTorn,     \* of which torn
          PageBits,    \* indices per bitfield page
          Cadence,     \* "code": flush on the first call of an instance, then every 4th; "free"
          TruncOnOpen, \* TRUE: open truncates the entries region to the cursor (as JavaScript does)
          Role,        \* "writer" | "replica"
          Mut          \* design deviation, "none" for the intended protocol

VARIABLES slot, cells, bfFile, treeFile, dataFile,   \* persistent
          mem, pc, cur,                              \* volatile
          abs, pend, ncalls, ncrash, ntorn, nextv, nextid, hist
pvars == <<slot, cells, bfFile, treeFile, dataFile>>
vars == <<slot, cells, bfFile, treeFile, dataFile, mem, pc, cur, abs, pend, ncalls, ncrash, ntorn,
          nextv, nextid, hist>>

Blocks == 0..(MaxLen - 1)
\* tree items: the nodes completed by block i (item i) and the roots of the tree of length L
RootId(L) == MaxLen + L
Items == Blocks \cup {RootId(L) : L \in 1..MaxLen}
\* replica: the remote writer's log. nextv - 1 blocks exist so far; block i has version i + 1
Remote == nextv - 1
TruthV(i) == i + 1
Pages == 0..((MaxLen - 1) \div PageBits)
PageIdx(g) == {i \in Blocks : i \div PageBits = g}
NoInst == [alive |-> FALSE]
NoPend == [some |-> FALSE]
NoSlot == [st |-> "none", bit |-> 0, tlen |-> 0, contig |-> 0, sec |-> FALSE]
Min(S) == CHOOSE x \in S : \A y \in S : x <= y
\* smallest index not in S
MinMissing(S) == Min((0..MaxLen) \ S)

---------------------------------------------------------------------------
(* Entries and cells *)

Sz(e) == IF e.kind = "clear" THEN 1 ELSE 2
EntryCells(e) == [k \in 1..Sz(e) |-> [e |-> e, k |-> k - 1, ok |-> TRUE]]
BadCell == [e |-> [id |-> 0], k |-> 0, ok |-> FALSE]

\* overwrite cs from 0-based offset p with ncs (zero-extending is not needed: p <= Len(cs))
Overwrite(cs, p, ncs) ==
  SubSeq(cs, 1, p) \o ncs \o
  (IF Len(cs) > p + Len(ncs) THEN SubSeq(cs, p + Len(ncs) + 1, Len(cs)) ELSE <<>>)

\* is there an intact entry at 0-based offset p ?
IntactAt(cs, p) ==
  /\ p + 1 <= Len(cs)
  /\ cs[p + 1].ok /\ cs[p + 1].k = 0
  /\ LET e == cs[p + 1].e IN
     /\ p + Sz(e) <= Len(cs)
     /\ \A j \in 1..Sz(e) : cs[p + j].ok /\ cs[p + j].k = j - 1 /\ cs[p + j].e = e

---------------------------------------------------------------------------
(* The reader: what opening the persistent state yields (src/oplog/mod.rs  *)
(* Oplog::open, src/core.rs Hypercore::new).                               *)

Valid(s) == slot[s].st = "ok"
Bits == IF Valid(1) /\ Valid(2) THEN <<slot[1].bit, slot[2].bit>>
        ELSE IF Valid(1) THEN <<slot[1].bit, slot[1].bit>>
        ELSE <<1 - slot[2].bit, slot[2].bit>>
HdrSlot(b) == IF b[1] = b[2] THEN 1 ELSE 2
CurBit(b) == IF b[1] # b[2] THEN 1 ELSE 0
\* the slot the next header goes to and the bit it gets
NextSlot(b) == IF b[1] # b[2] THEN 1 ELSE 2
NextBit(b) == IF b[1] # b[2] THEN 1 - b[1] ELSE 1 - b[2]
WithBit(b, s, v) == IF s = 1 THEN <<v, b[2]>> ELSE <<b[1], v>>

RECURSIVE Scan(_, _, _)
Scan(cs, p, bit) ==
  IF IntactAt(cs, p) /\ (Mut = "nobitcheck" \/ cs[p + 1].e.bit = bit)
  THEN <<cs[p + 1].e>> \o Scan(cs, p + Sz(cs[p + 1].e), bit)
  ELSE <<>>
SumSz(es) == LET F[k \in 0..Len(es)] == IF k = 0 THEN 0 ELSE F[k - 1] + Sz(es[k]) IN F[Len(es)]

\* maintenance of the contiguous-length hint (src/core.rs update_contiguous_length)
ContigSet(c, held, s, n) ==
  IF c <= s + n /\ c >= s
  THEN LET F[x \in (s + n)..(MaxLen + 1)] == IF x \in held /\ x <= MaxLen THEN F[x + 1] ELSE x IN F[s + n]
  ELSE c
ContigDrop(c, s) == IF Mut = "contig_drop_inside" THEN c ELSE IF c > s THEN s ELSE c

\* replay of the accepted entries onto header / bitfield / tree
RECURSIVE Replay(_, _)
Replay(st, es) ==
  IF es = <<>> \/ ~st.ok THEN st
  ELSE LET e == Head(es) IN
       IF e.kind = "clear"
       THEN Replay([st EXCEPT !.held = @ \ (e.s..(e.e - 1)), !.contig = ContigDrop(@, e.s)], Tail(es))
       ELSE IF e.kind = "apply"
       THEN \* a verified proof: block e.from if e.n = 1, tree upgrade from length e.s to e.e if e.e # e.s.
            \* The entry carries the nodes it needs (the block's and the new roots).
            LET nh == IF e.n = 1 THEN st.held \cup {e.from} ELSE st.held
                items == (IF e.n = 1 THEN {e.from} ELSE {}) \cup
                         (IF e.e # e.s /\ Mut # "apply_no_roots" THEN {RootId(e.e)} ELSE {}) IN
            Replay([st EXCEPT !.held = nh,
                              !.contig = IF e.n = 1 THEN ContigSet(@, nh, e.from, 1) ELSE @,
                              !.tlen = IF e.e # e.s THEN e.e ELSE @,
                              !.nodes = [i \in Items |-> IF i = e.from /\ e.n = 1 THEN TruthV(i)
                                                         ELSE IF i \in items /\ i = RootId(e.e) THEN e.e ELSE @[i]],
                              !.unfl = @ \cup items],
                   Tail(es))
       ELSE \* append: nodes, bitfield set, tree upgrade from e.from to e.from + e.n
            IF e.from < st.tlen
            THEN [st EXCEPT !.ok = FALSE, !.err = "stale entry replayed as a truncation"]
            ELSE IF e.from > st.tlen \/ \E i \in 0..(st.tlen - 1) : st.nodes[i] = 0
            THEN [st EXCEPT !.ok = FALSE, !.err = "tree node missing"]
            ELSE LET nh == st.held \cup (e.from..(e.from + e.n - 1)) IN
                 Replay([st EXCEPT !.held = nh,
                                   !.contig = ContigSet(@, nh, e.from, e.n),
                                   !.tlen = e.from + e.n,
                                   !.nodes = [i \in Items |-> IF i >= e.from /\ i < e.from + e.n
                                                              THEN e.vs[i - e.from + 1] ELSE @[i]],
                                   !.unfl = @ \cup (e.from..(e.from + e.n - 1))],
                        Tail(es))

OpenRead ==
  IF ~Valid(1) /\ ~Valid(2) THEN [ok |-> FALSE, err |-> "empty"]
  ELSE LET b == Bits
           h == slot[HdrSlot(b)]
           es == Scan(cells, 0, CurBit(b))
           \* the roots of the header's tree must be in the tree store: for the writer (which has
           \* every node) modelled as all block items, for a replica as the root item of that length
           st0 == [ok |-> IF Role = "replica" THEN h.tlen = 0 \/ treeFile[RootId(h.tlen)] # 0
                          ELSE (\A i \in 0..(h.tlen - 1) : treeFile[i] # 0),
                   err |-> "tree root missing",
                   bits |-> b, tlen |-> h.tlen, contig |-> h.contig, sec |-> h.sec,
                   held |-> bfFile, nodes |-> treeFile, unfl |-> {},
                   cursor |-> IF Mut = "cursor0" THEN 0 ELSE SumSz(es)]
       IN Replay(st0, es)

\* the abstract view of a reader result: what the public API would report
ViewOf(r) == [len |-> r.tlen, held |-> r.held \cap (0..(r.tlen - 1)), w |-> r.sec,
              cont |-> [i \in Blocks |-> IF i \in r.held /\ i < r.tlen THEN dataFile[i] ELSE 0]]
AbsView(a) == [len |-> a.len, held |-> a.held, w |-> a.w,
               cont |-> [i \in Blocks |-> IF i \in a.held THEN a.cont[i] ELSE 0]]

---------------------------------------------------------------------------
(* Initial state: a freshly created core, header in slot 1 (Oplog::fresh) *)

Init ==
  /\ slot = [s \in 1..2 |-> IF s = 1 THEN [st |-> "ok", bit |-> 0, tlen |-> 0, contig |-> 0, sec |-> Role = "writer"]
                            ELSE NoSlot]
  /\ cells = <<>> /\ bfFile = {} /\ treeFile = [i \in Items |-> 0] /\ dataFile = [i \in Blocks |-> 0]
  /\ mem = [alive |-> TRUE, bits |-> <<0, 0>>, tlen |-> 0, contig |-> 0, sec |-> Role = "writer", held |-> {},
            dirty |-> {}, unfl |-> {}, nodes |-> [i \in Items |-> 0], cursor |-> 0, skip |-> 0]
  /\ pc = "idle" /\ cur = [op |-> "none"]
  /\ abs = [len |-> 0, held |-> {}, w |-> Role = "writer", cont |-> [i \in Blocks |-> 0], sealed |-> FALSE]
  /\ pend = NoPend /\ ncalls = 0 /\ ncrash = 0 /\ ntorn = 0 /\ nextv = 1 /\ nextid = 1
  /\ hist = <<>>

---------------------------------------------------------------------------
(* Calls.  pc walks through the storage operations in the order the code   *)
(* issues them.                                                            *)

Ghost(h) == hist' = Append(hist, h)
Idle == pc = "idle" /\ mem.alive /\ ncalls < MaxCalls

FlushStart == IF Mut = "hdr_before_pages" THEN "f_hdr" ELSE "f_pages"

\* ---- append_batch(n blocks) ----
AppendBegin(n) ==
  /\ Idle /\ Role = "writer" /\ mem.sec /\ n >= 1 /\ mem.tlen + n <= MaxLen
  /\ LET vs == [k \in 1..n |-> nextv + k - 1]
         after == [abs EXCEPT !.len = @ + n, !.held = @ \cup (abs.len..(abs.len + n - 1)),
                              !.cont = [i \in Blocks |-> IF i >= abs.len /\ i < abs.len + n
                                                         THEN vs[i - abs.len + 1] ELSE @[i]]] IN
     /\ cur' = [op |-> "append", n |-> n, vs |-> vs, mro |-> FALSE, jc |-> <<>>]
     /\ pend' = [some |-> TRUE, b |-> abs, a |-> after]
     /\ nextv' = nextv + n
  /\ pc' = IF Mut = "entry_before_data" THEN "a_entry" ELSE "a_data"
  /\ ncalls' = ncalls + 1 /\ Ghost(<<"append", n>>)
  /\ UNCHANGED <<pvars, mem, abs, ncrash, ntorn, nextid>>

WData ==   \* W data @ byte_length
  /\ pc = "a_data" /\ cur.op = "append"
  /\ dataFile' = [i \in Blocks |-> IF i >= mem.tlen /\ i < mem.tlen + cur.n
                                   THEN cur.vs[i - mem.tlen + 1] ELSE dataFile[i]]
  /\ pc' = IF Mut = "entry_before_data" THEN "a_commit" ELSE "a_entry"
  /\ UNCHANGED <<slot, cells, bfFile, treeFile, mem, abs, pend, ncalls, ncrash, ntorn, nextv, nextid, hist>>
  /\ cur' = [cur EXCEPT !.jc = Append(@, "a_data")]

AppendEntry == [id |-> nextid, bit |-> CurBit(mem.bits), kind |-> "append", from |-> mem.tlen,
                n |-> cur.n, vs |-> cur.vs, s |-> 0, e |-> 0]

WEntryAppend ==   \* W oplog entry @ 8192 + cursor : the commit point
  /\ pc = "a_entry" /\ cur.op = "append"
  /\ cells' = Overwrite(cells, mem.cursor, EntryCells(AppendEntry))
  /\ mem' = [mem EXCEPT !.cursor = @ + Sz(AppendEntry)]
  /\ nextid' = nextid + 1
  /\ pc' = IF Mut = "entry_before_data" THEN "a_data" ELSE "a_commit"
  /\ UNCHANGED <<slot, bfFile, treeFile, dataFile, abs, pend, ncalls, ncrash, ntorn, nextv, hist>>
  /\ cur' = [cur EXCEPT !.jc = Append(@, "entry")]

CommitAppend ==   \* in-memory bitfield, contiguous length, tree (no storage operation)
  /\ pc = "a_commit" /\ cur.op = "append"
  /\ LET nh == mem.held \cup (mem.tlen..(mem.tlen + cur.n - 1))
         m1 == [mem EXCEPT !.held = nh,
                           !.dirty = @ \cup {i \div PageBits : i \in mem.tlen..(mem.tlen + cur.n - 1)},
                           !.contig = ContigSet(@, nh, mem.tlen, cur.n),
                           !.nodes = [i \in Items |-> IF i >= mem.tlen /\ i < mem.tlen + cur.n
                                                      THEN cur.vs[i - mem.tlen + 1] ELSE @[i]],
                           !.unfl = @ \cup (mem.tlen..(mem.tlen + cur.n - 1)),
                           !.tlen = @ + cur.n] IN
     IF Cadence = "code"
     THEN IF m1.skip = 0 THEN pc' = FlushStart /\ mem' = [m1 EXCEPT !.skip = 3]
          ELSE pc' = "ret" /\ mem' = [m1 EXCEPT !.skip = @ - 1]
     ELSE pc' \in {FlushStart, "ret"} /\ mem' = m1
  /\ UNCHANGED <<pvars, cur, abs, pend, ncalls, ncrash, ntorn, nextv, nextid, hist>>

\* ---- clear(s, e) ----
ClearBegin(s, e) ==
  /\ Idle /\ Role = "writer" /\ s < e /\ s < mem.tlen /\ e <= MaxLen
  /\ cur' = [op |-> "clear", s |-> s, e |-> e, mro |-> FALSE, jc |-> <<>>]
  /\ pend' = [some |-> TRUE, b |-> abs, a |-> [abs EXCEPT !.held = @ \ (s..(e - 1))]]
  /\ pc' = "c_entry" /\ ncalls' = ncalls + 1 /\ Ghost(<<"clear", s, e>>)
  /\ UNCHANGED <<pvars, mem, abs, ncrash, ntorn, nextv, nextid>>

ClearEntry == [id |-> nextid, bit |-> CurBit(mem.bits), kind |-> "clear", from |-> 0, n |-> 0,
               vs |-> <<>>, s |-> cur.s, e |-> cur.e]

WEntryClear ==
  /\ pc = "c_entry"
  /\ cells' = Overwrite(cells, mem.cursor, EntryCells(ClearEntry))
  /\ mem' = [mem EXCEPT !.cursor = @ + 1,
                        !.held = @ \ (cur.s..(cur.e - 1)),
                        !.dirty = @ \cup {i \div PageBits : i \in (cur.s..(cur.e - 1)) \cap mem.held},
                        !.contig = IF cur.s < @ THEN cur.s ELSE @]
  /\ nextid' = nextid + 1 /\ pc' = "c_del"
  /\ UNCHANGED <<slot, bfFile, treeFile, dataFile, abs, pend, ncalls, ncrash, ntorn, nextv, hist>>
  /\ cur' = [cur EXCEPT !.jc = Append(@, "entry")]

\* the widest hole around [s, e): back to the previous held block, forward to the next one
HoleLo == LET below == {i \in mem.held : i < cur.s} IN
          IF below = {} THEN 0 ELSE (CHOOSE x \in below : \A y \in below : y <= x) + 1
HoleHi == LET above == {i \in mem.held : i >= cur.e} IN
          IF above = {} THEN mem.tlen ELSE Min(above)

DData ==   \* D data hole
  /\ pc = "c_del"
  /\ dataFile' = [i \in Blocks |-> IF i >= HoleLo /\ i < HoleHi THEN 0 ELSE dataFile[i]]
  /\ IF Cadence = "code"
     THEN IF mem.skip = 0 THEN pc' = FlushStart /\ mem' = [mem EXCEPT !.skip = 3]
          ELSE pc' = "ret" /\ mem' = [mem EXCEPT !.skip = @ - 1]
     ELSE pc' \in {FlushStart, "ret"} /\ UNCHANGED mem
  /\ UNCHANGED <<slot, cells, bfFile, treeFile, abs, pend, ncalls, ncrash, ntorn, nextv, nextid, hist>>
  /\ cur' = [cur EXCEPT !.jc = Append(@, "c_del")]

\* ---- replica: verify_and_apply_proof(block i and/or upgrade to the remote length) ----
\* the remote writer appends n blocks (an environment step, not a call on this core)
Grow(n) ==
  /\ Idle /\ Role = "replica" /\ n >= 1 /\ Remote + n <= MaxLen
  /\ nextv' = nextv + n /\ Ghost(<<"grow", n>>)
  /\ UNCHANGED <<pvars, mem, pc, cur, abs, pend, ncalls, ncrash, ntorn, nextid>>

ApplyBegin(hasblk, i, up) ==
  /\ Idle /\ Role = "replica" /\ (hasblk \/ up)
  /\ up => Remote > mem.tlen
  /\ LET nl == IF up THEN Remote ELSE mem.tlen IN
     /\ hasblk => i < nl /\ i \notin mem.held
     /\ ~hasblk => i = 0
     /\ cur' = [op |-> "apply", hasblk |-> hasblk, blk |-> i, ol |-> mem.tlen, nl |-> nl, mro |-> FALSE, jc |-> <<>>]
     /\ pend' = [some |-> TRUE, b |-> abs,
                 a |-> [abs EXCEPT !.len = nl,
                                   !.held = IF hasblk THEN @ \cup {i} ELSE @,
                                   !.cont = IF hasblk THEN [@ EXCEPT ![i] = TruthV(i)] ELSE @]]
     /\ pc' = IF ~hasblk \/ Mut = "entry_before_data" THEN "a_entry" ELSE "a_data"
  /\ ncalls' = ncalls + 1 /\ Ghost(<<"apply", IF hasblk THEN 1 ELSE 0, i, IF up THEN 1 ELSE 0>>)
  /\ UNCHANGED <<pvars, mem, abs, ncrash, ntorn, nextv, nextid>>

WDataApply ==   \* W data @ the block's byte offset in the verified tree
  /\ pc = "a_data" /\ cur.op = "apply"
  /\ dataFile' = [dataFile EXCEPT ![cur.blk] = TruthV(cur.blk)]
  /\ pc' = IF Mut = "entry_before_data" THEN "a_commit" ELSE "a_entry"
  /\ UNCHANGED <<slot, cells, bfFile, treeFile, mem, abs, pend, ncalls, ncrash, ntorn, nextv, nextid, hist>>
  /\ cur' = [cur EXCEPT !.jc = Append(@, "a_data")]

\* from/n: the block; s/e: tree length before and after (equal: no upgrade)
ApplyEntry == [id |-> nextid, bit |-> CurBit(mem.bits), kind |-> "apply", from |-> cur.blk,
               n |-> IF cur.hasblk THEN 1 ELSE 0, vs |-> <<>>, s |-> cur.ol, e |-> cur.nl]

WEntryApply ==   \* W oplog entry (nodes, upgrade, bitfield update): the commit point
  /\ pc = "a_entry" /\ cur.op = "apply"
  /\ cells' = Overwrite(cells, mem.cursor, EntryCells(ApplyEntry))
  /\ mem' = [mem EXCEPT !.cursor = @ + Sz(ApplyEntry)]
  /\ nextid' = nextid + 1
  /\ pc' = IF cur.hasblk /\ Mut = "entry_before_data" THEN "a_data" ELSE "a_commit"
  /\ UNCHANGED <<slot, bfFile, treeFile, dataFile, abs, pend, ncalls, ncrash, ntorn, nextv, hist>>
  /\ cur' = [cur EXCEPT !.jc = Append(@, "entry")]

CommitApply ==   \* in-memory bitfield, contiguous length, tree
  /\ pc = "a_commit" /\ cur.op = "apply"
  /\ LET nh == IF cur.hasblk THEN mem.held \cup {cur.blk} ELSE mem.held
         items == (IF cur.hasblk THEN {cur.blk} ELSE {}) \cup (IF cur.nl # cur.ol THEN {RootId(cur.nl)} ELSE {})
         m1 == [mem EXCEPT !.held = nh,
                           !.dirty = IF cur.hasblk THEN @ \cup {cur.blk \div PageBits} ELSE @,
                           !.contig = IF cur.hasblk THEN ContigSet(@, nh, cur.blk, 1) ELSE @,
                           !.nodes = [i \in Items |-> IF i = cur.blk /\ cur.hasblk THEN TruthV(i)
                                                      ELSE IF i = RootId(cur.nl) /\ cur.nl # cur.ol THEN cur.nl
                                                      ELSE @[i]],
                           !.unfl = @ \cup items,
                           !.tlen = cur.nl] IN
     IF Cadence = "code"
     THEN IF m1.skip = 0 THEN pc' = FlushStart /\ mem' = [m1 EXCEPT !.skip = 3]
          ELSE pc' = "ret" /\ mem' = [m1 EXCEPT !.skip = @ - 1]
     ELSE pc' \in {FlushStart, "ret"} /\ mem' = m1
  /\ UNCHANGED <<pvars, cur, abs, pend, ncalls, ncrash, ntorn, nextv, nextid, hist>>

\* ---- make_read_only ----
MroBegin ==
  /\ Idle /\ Role = "writer" /\ mem.sec
  /\ cur' = [op |-> "mro", mro |-> TRUE, jc |-> <<>>]
  /\ pend' = [some |-> TRUE, b |-> abs, a |-> [abs EXCEPT !.w = FALSE]]
  /\ mem' = [mem EXCEPT !.sec = FALSE]
  /\ pc' = FlushStart /\ ncalls' = ncalls + 1 /\ Ghost(<<"mro">>)
  /\ UNCHANGED <<pvars, abs, ncrash, ntorn, nextv, nextid>>

\* ---- flush_bitfield_and_tree_and_oplog ----
WPage(g) ==   \* W bitfield page g
  /\ pc = "f_pages" /\ g \in mem.dirty
  /\ bfFile' = (bfFile \ PageIdx(g)) \cup (mem.held \cap PageIdx(g))
  /\ mem' = [mem EXCEPT !.dirty = @ \ {g}]
  /\ UNCHANGED <<slot, cells, treeFile, dataFile, pc, abs, pend, ncalls, ncrash, ntorn, nextv, nextid, hist>>
  /\ cur' = [cur EXCEPT !.jc = Append(@, "f_pages")]

PagesDone ==
  /\ pc = "f_pages" /\ mem.dirty = {}
  /\ pc' = "f_nodes"
  /\ UNCHANGED <<pvars, mem, cur, abs, pend, ncalls, ncrash, ntorn, nextv, nextid, hist>>

WNode(i) ==   \* W tree nodes completed by block i (any order: the code's order is map order)
  /\ pc = "f_nodes" /\ i \in mem.unfl
  /\ treeFile' = [treeFile EXCEPT ![i] = mem.nodes[i]]
  /\ mem' = [mem EXCEPT !.unfl = @ \ {i}]
  /\ UNCHANGED <<slot, cells, bfFile, dataFile, pc, abs, pend, ncalls, ncrash, ntorn, nextv, nextid, hist>>
  /\ cur' = [cur EXCEPT !.jc = Append(@, "f_nodes")]

NodesDone ==
  /\ pc = "f_nodes" /\ mem.unfl = {}
  /\ pc' = IF Mut = "hdr_before_pages" THEN "f_trunc" ELSE "f_hdr"
  /\ UNCHANGED <<pvars, mem, cur, abs, pend, ncalls, ncrash, ntorn, nextv, nextid, hist>>

HdrRec(bit) == [st |-> "ok", bit |-> bit, tlen |-> mem.tlen, contig |-> mem.contig, sec |-> mem.sec]

WHeader(next) ==   \* W oplog header into the non-current slot; the current bit flips
  /\ pc \in {"f_hdr", "f_hdr2"}
  /\ LET s == NextSlot(mem.bits) b == NextBit(mem.bits) IN
     /\ slot' = [slot EXCEPT ![s] = HdrRec(b)]
     /\ mem' = [mem EXCEPT !.bits = WithBit(mem.bits, s, b)]
  /\ pc' = next
  /\ UNCHANGED <<cells, bfFile, treeFile, dataFile, abs, pend, ncalls, ncrash, ntorn, nextv, nextid, hist>>
  /\ cur' = [cur EXCEPT !.jc = Append(@, IF pc = "f_hdr" THEN "f_hdr" ELSE "f_hdr2")]

WHeader1 == pc = "f_hdr" /\ WHeader(IF Mut = "hdr_before_pages" THEN "f_pages"
                                    ELSE IF cur.mro /\ Mut = "mro_no_mid_trunc" THEN "f_hdr2" ELSE "f_trunc")
WHeader2 == pc = "f_hdr2" /\ WHeader("f_trunc2")

TOplog(next) ==   \* T oplog 8192
  /\ cells' = <<>>
  /\ mem' = [mem EXCEPT !.cursor = 0]
  /\ pc' = next
  /\ UNCHANGED <<slot, bfFile, treeFile, dataFile, abs, pend, ncalls, ncrash, ntorn, nextv, nextid, hist>>
  /\ cur' = [cur EXCEPT !.jc = Append(@, IF pc = "f_trunc" THEN "f_trunc" ELSE "f_trunc2")]

TOplog1 == pc = "f_trunc" /\ TOplog(IF cur.mro /\ Mut # "mro_one_slot" THEN "f_hdr2" ELSE "ret")
TOplog2 == pc = "f_trunc2" /\ TOplog("ret")

Return ==
  /\ pc = "ret"
  \* sealed: make_read_only has *returned* (C12 promises key hygiene from then on only)
  /\ abs' = [pend.a EXCEPT !.sealed = (@ \/ cur.op = "mro")]
  /\ pend' = NoPend /\ pc' = "idle" /\ cur' = [op |-> "none"]
  /\ UNCHANGED <<pvars, mem, ncalls, ncrash, ntorn, nextv, nextid, hist>>

---------------------------------------------------------------------------
(* Crash, torn crash, reopen *)

\* whatever the reader makes of the stores is, from now on, the state of the log
Die(h) ==
  /\ mem' = NoInst /\ pc' = "closed" /\ cur' = [op |-> "none"]
  /\ pend' = NoPend
  /\ ncrash' = ncrash + 1
  /\ Ghost(h)

AbsAfterCrash ==
  \* the ghost follows whichever of before/after the stores now recover to (RecoverOK checks
  \* that it is one of them; if it is neither the invariant has already failed in this state)
  abs' = IF ~pend.some THEN abs
         ELSE IF OpenRead.ok /\ ViewOf(OpenRead) = AbsView(pend.a) THEN pend.a ELSE pend.b

Crash ==
  /\ mem.alive /\ ncrash < MaxCrashes
  /\ AbsAfterCrash
  /\ Die(<<"crash", pc>>)
  /\ UNCHANGED <<pvars, ncalls, ntorn, nextv, nextid>>

\* The write that is enabled reaches the store only as a proper prefix, then the process dies.
TornEntry(e) ==
  \E c \in 0..(Sz(e) - 1) :
    cells' = Overwrite(cells, mem.cursor, SubSeq(EntryCells(e), 1, c) \o <<BadCell>>)

TornCrash ==
  /\ mem.alive /\ ncrash < MaxCrashes /\ ntorn < MaxTorn
  /\ \/ /\ pc = "a_entry" /\ cur.op = "append" /\ TornEntry(AppendEntry) /\ UNCHANGED <<slot, bfFile, treeFile, dataFile>>
     \/ /\ pc = "a_entry" /\ cur.op = "apply" /\ TornEntry(ApplyEntry) /\ UNCHANGED <<slot, bfFile, treeFile, dataFile>>
     \/ /\ pc = "a_data" /\ cur.op = "apply"     \* the block arrives as garbage
        /\ dataFile' = [dataFile EXCEPT ![cur.blk] = 0]
        /\ UNCHANGED <<slot, cells, bfFile, treeFile>>
     \/ /\ pc = "c_entry" /\ TornEntry(ClearEntry) /\ UNCHANGED <<slot, bfFile, treeFile, dataFile>>
     \/ /\ pc \in {"f_hdr", "f_hdr2"}
        /\ slot' = [slot EXCEPT ![NextSlot(mem.bits)] = [NoSlot EXCEPT !.st = "bad"]]
        /\ UNCHANGED <<cells, bfFile, treeFile, dataFile>>
     \/ /\ pc = "f_pages"
        /\ \E g \in mem.dirty : \E cut \in PageIdx(g) :   \* words below the cut are new
             bfFile' = (bfFile \ {i \in PageIdx(g) : i < cut}) \cup {i \in mem.held \cap PageIdx(g) : i < cut}
        /\ UNCHANGED <<slot, cells, treeFile, dataFile>>
     \/ /\ pc = "f_nodes"
        /\ \E i \in mem.unfl : treeFile' = [treeFile EXCEPT ![i] = 0]
        /\ UNCHANGED <<slot, cells, bfFile, dataFile>>
     \/ /\ pc = "a_data" /\ cur.op = "append"
        /\ \E c \in 0..(cur.n - 1) :   \* c blocks complete, the next one garbage
             dataFile' = [i \in Blocks |-> IF i >= mem.tlen /\ i < mem.tlen + c THEN cur.vs[i - mem.tlen + 1]
                                           ELSE IF i = mem.tlen + c THEN 0 ELSE dataFile[i]]
        /\ UNCHANGED <<slot, cells, bfFile, treeFile>>
  /\ ntorn' = ntorn + 1
  /\ abs' = IF ~pend.some THEN abs
            ELSE IF OpenRead'.ok /\ ViewOf(OpenRead)' = AbsView(pend.a) THEN pend.a ELSE pend.b
  /\ Die(<<"torn", pc>>)
  /\ UNCHANGED <<ncalls, nextv, nextid>>

Open ==
  /\ pc = "closed" /\ OpenRead.ok
  /\ LET r == OpenRead IN
     /\ mem' = [alive |-> TRUE, bits |-> r.bits, tlen |-> r.tlen, contig |-> r.contig, sec |-> r.sec,
                held |-> r.held, dirty |-> {i \div PageBits : i \in ((r.held \ bfFile) \cup (bfFile \ r.held))},
                unfl |-> r.unfl, nodes |-> r.nodes, cursor |-> r.cursor, skip |-> 0]
     /\ cells' = IF TruncOnOpen THEN SubSeq(cells, 1, r.cursor) ELSE cells
  /\ pc' = "idle" /\ Ghost(<<"open">>)
  /\ UNCHANGED <<slot, bfFile, treeFile, dataFile, cur, abs, pend, ncalls, ncrash, ntorn, nextv, nextid>>

\* clean drop of an idle instance (close; reopen is Open)
Close ==
  /\ pc = "idle" /\ mem.alive /\ ncalls < MaxCalls
  /\ mem' = NoInst /\ pc' = "closed" /\ Ghost(<<"close">>)
  /\ UNCHANGED <<pvars, cur, abs, pend, ncalls, ncrash, ntorn, nextv, nextid>>

Next ==
  \/ \E n \in 1..2 : AppendBegin(n)
  \/ WData \/ WEntryAppend \/ CommitAppend
  \/ \E n \in 1..2 : Grow(n)
  \/ \E hb \in BOOLEAN, i \in Blocks, up \in BOOLEAN : ApplyBegin(hb, i, up)
  \/ WDataApply \/ WEntryApply \/ CommitApply
  \/ \E s \in Blocks, e \in 1..MaxLen : ClearBegin(s, e)
  \/ WEntryClear \/ DData
  \/ MroBegin
  \/ \E g \in Pages : WPage(g)
  \/ PagesDone \/ NodesDone
  \/ \E i \in Items : WNode(i)
  \/ WHeader1 \/ WHeader2 \/ TOplog1 \/ TOplog2
  \/ Return \/ Crash \/ TornCrash \/ Open \/ Close

Spec == Init /\ [][Next]_vars

---------------------------------------------------------------------------
(* Properties *)

\* C02/C07: in EVERY state the stores recover (open succeeds) to the before- or the after-state
\* of the call in progress; when no call is in progress, to the committed state.
RecoverOK ==
  LET r == OpenRead IN
  /\ r.ok
  /\ IF pend.some THEN ViewOf(r) = AbsView(pend.b) \/ ViewOf(r) = AbsView(pend.a)
     ELSE ViewOf(r) = AbsView(abs)

\* C08: the recovered contiguous-length hint is exact
RecoverContig == LET r == OpenRead IN r.ok => r.contig = MinMissing(r.held \cap (0..(r.tlen - 1)))

\* C01/C08: the live instance agrees with the committed state at call boundaries
MemView ==
  (pc = "idle" /\ mem.alive) =>
     /\ mem.tlen = abs.len /\ mem.held = abs.held /\ mem.sec = abs.w
     /\ mem.contig = MinMissing(abs.held)
     /\ \A i \in abs.held : dataFile[i] = abs.cont[i]
     /\ IF Role = "writer"
        THEN \A i \in 0..(abs.len - 1) : mem.nodes[i] = abs.cont[i] \/ (i \notin abs.held /\ mem.nodes[i] # 0)
        ELSE /\ \A i \in abs.held : mem.nodes[i] = abs.cont[i] /\ abs.cont[i] = TruthV(i)
             /\ abs.len = 0 \/ mem.nodes[RootId(abs.len)] = abs.len
             /\ abs.len <= Remote

\* every tree node on disk or in memory belongs to the committed log (C05 at the design level)
TreeSound == \A i \in Blocks : i < abs.len /\ treeFile[i] # 0 /\ i \in abs.held => treeFile[i] = abs.cont[i]

\* header-bit protocol: an accepted entry was written after the current header
HeaderBitProtocol ==
  (Valid(1) \/ Valid(2)) =>
    LET b == Bits es == Scan(cells, 0, CurBit(b)) h == slot[HdrSlot(b)] IN
    \A k \in 1..Len(es) : /\ (es[k].kind = "append" => es[k].from >= h.tlen)
                           /\ (es[k].kind = "apply" => es[k].s >= h.tlen)

\* C12: once make_read_only has returned, no slot holds the secret (entries never carry it)
KeyHygiene ==
  (pc = "idle" /\ mem.alive /\ abs.sealed) =>
     /\ ~abs.w
     /\ \A s \in 1..2 : ~slot[s].sec

\* the storage operations of every call stay inside the envelope of StoreOrder
JournalInEnvelope == (pc = "ret" /\ Mut = "none") =>
                       CallOrderOK(IF cur.op = "apply" THEN "proof" ELSE cur.op, TRUE, cur.jc)

\* whatever is recovered can be served: every held block has its tree nodes, and the tree of the
\* recovered length has its roots (a replica needs them to verify the next proof)
RecoverNodes ==
  LET r == OpenRead IN
  r.ok => /\ (\A i \in r.held \cap (0..(r.tlen - 1)) : r.nodes[i] # 0)
          /\ (Role = "replica" => (r.tlen = 0 \/ r.nodes[RootId(r.tlen)] = r.tlen))

TypeOK ==
  /\ pc \in {"idle", "closed", "ret", "a_data", "a_entry", "a_commit", "c_entry", "c_del",
             "f_pages", "f_nodes", "f_hdr", "f_hdr2", "f_trunc", "f_trunc2"}
  /\ bfFile \subseteq Blocks
  /\ ncrash <= MaxCrashes

\* for behaviour export (spec -> implementation replay): one line per completed behaviour
Done == ncalls = MaxCalls /\ pc \in {"idle", "closed"}
=============================================================================
