SPECIFICATION Spec
CONSTANTS Sizes <- MCSizes3
          Mut = "none"
VIEW NoHist
INVARIANTS Export
CHECK_DEADLOCK FALSE
