------------------------------ MODULE MCLayout ------------------------------
(* Constant evaluation of Layout: prints the templates and tree shapes as JSON. *)
EXTENDS Layout, Json, TLC, SequencesExt

CONSTANT TreeSizes     \* set of log lengths whose complete tree shape is exported

NodeRow(i) == IF i % 2 = 0 THEN <<i, 0, -1, -1>> ELSE <<i, Depth(i), LeftChild(i), RightChild(i)>>
Shape(n) == [n |-> n,
             \* children before parents: ordered by depth, then by index
             nodes |-> LET ord == SetToSortSeq(FullNodes(n), LAMBDA a, b :
                                     \/ Depth(a) < Depth(b)
                                     \/ (Depth(a) = Depth(b) /\ a < b))
                       IN [k \in 1..Len(ord) |-> NodeRow(ord[k])],
             roots |-> FullRoots(n)]

Out == [ cuint_classes |-> CUintClasses, cuint_boundaries |-> CUintBoundaries,
         leaf |-> LeafHash, parent |-> ParentHash, root_entry |-> RootEntry, tree |-> TreeHash,
         namespace |-> Namespace, signable |-> Signable,
         node_size |-> NodeSize, node_record |-> NodeRecord,
         page_bytes |-> PageBytes, slot_size |-> SlotSize, entries_offset |-> EntriesOffset,
         leader |-> Leader, header |-> HeaderPayload, entry_sections |-> EntrySections,
         messages |-> Messages ]

ASSUME PrintT(<<"LAYOUT", ToJson(Out)>>)
ASSUME \A n \in TreeSizes : PrintT(<<"SHAPE", ToJson(Shape(n))>>)

VARIABLE x
Init == x = 0
Next == UNCHANGED x
Spec == Init /\ [][Next]_x
=============================================================================
