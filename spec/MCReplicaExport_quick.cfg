SPECIFICATION Spec
CONSTANTS MaxLen = 3
          MaxCalls = 3
          MaxCrashes = 1
          MaxTorn = 1
          PageBits = 2
          Cadence = "code"
          Role = "replica"
          TruncOnOpen = TRUE
          Mut = "none"
VIEW NoHist
INVARIANTS Export TypeOK RecoverNodes RecoverOK RecoverContig MemView TreeSound HeaderBitProtocol KeyHygiene
CHECK_DEADLOCK FALSE
