SPECIFICATION TourSpec
CONSTANTS MaxLen = 2
          MaxSubs = 1
CONSTRAINT Bound
VIEW TourView
INVARIANT TourExport
CHECK_DEADLOCK FALSE
