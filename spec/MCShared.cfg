SPECIFICATION Spec
CONSTANTS Tasks <- MCTasks
          Calls <- MCCalls
          Atomic = TRUE
INVARIANTS GapFree PerTaskIncreasing NoPartial Mutex
PROPERTY AllDone
CHECK_DEADLOCK FALSE
