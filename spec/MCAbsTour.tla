----------------------------- MODULE MCAbsTour -----------------------------
EXTENDS MCAbs, Json

\* ---- tour (spec -> implementation): every reachable state of the interruption-free model with a
\* path to it; the harness replays the path on the real crate and then tries every operation of the
\* alphabet from there, so that every edge of the bounded model is executed at least once
VARIABLE hist
TourInit == Init /\ hist = <<>>
TourNext == \/ \E op \in WOps : Do("w", op) /\ hist' = Append(hist, <<"w", op>>)
            \/ \E op \in ROps : Do("r", op) /\ hist' = Append(hist, <<"r", op>>)
TourSpec == TourInit /\ [][TourNext]_<<absvars, hist>>
TourView == absvars
TourExport == PrintT(<<"ABSHIST", ToJson(hist)>>)
=============================================================================
