SPECIFICATION TSpec
INVARIANT TInv
POSTCONDITION TraceAccepted
CHECK_DEADLOCK FALSE
