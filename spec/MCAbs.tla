------------------------------- MODULE MCAbs -------------------------------
(* Bounded model of HcAbs: one writer "w" and one replica "r" of the same key, every     *)
(* operation with small arguments, every call possibly interrupted.  Checks the model's  *)
(* own invariants and the action properties the listed properties are phrased in.        *)
EXTENDS HcAbs, SequencesExt

CONSTANTS MaxLen, MaxSubs

Raw1 == {<<n, s, c>> : n \in 1..2, s \in 0..1, c \in 1..2}
Batches == {<<>>} \cup {<<r>> : r \in Raw1} \cup {<<r1, r2>> : r1 \in {<<1, 0, 1>>}, r2 \in {<<1, 1, 2>>}}

WOps == {[o |-> "append", runs |-> b] : b \in Batches}
        \cup {[o |-> "clear", s |-> s, e |-> e] : s \in 0..MaxLen, e \in 0..(MaxLen + 1)}
        \cup {[o |-> "get", i |-> i, bi |-> ""] : i \in 0..MaxLen}
        \cup {[o |-> "mro"], [o |-> "reopen"], [o |-> "sub"]}
ROps == {[o |-> "proof", blk |-> b, hasup |-> u] : u \in BOOLEAN, b \in -1..(MaxLen - 1)}
        \cup {[o |-> "clear", s |-> s, e |-> e] : s \in 0..MaxLen, e \in 0..(MaxLen + 1)}
        \cup {[o |-> "get", i |-> i, bi |-> ""] : i \in 0..MaxLen}
        \cup {[o |-> "reopen"], [o |-> "append", runs |-> <<<<1, 1, 1>>>>]}

Init == /\ truth = ("k1" :> <<>>)
        /\ cores = ("w" :> [key |-> "k1", len |-> 0, held |-> <<>>, writable |-> TRUE, subs |-> 0, sealed |-> FALSE])
                   @@ ("r" :> [key |-> "k1", len |-> 0, held |-> <<>>, writable |-> FALSE, subs |-> 0, sealed |-> TRUE])

Next == \/ \E op \in WOps : Do("w", op) \/ Interrupted("w", op)
        \/ \E op \in ROps : Do("r", op) \/ Interrupted("r", op)

Spec == Init /\ [][Next]_absvars


Bound == /\ RLen(truth["k1"]) <= MaxLen
         /\ \A c \in DOMAIN cores : cores[c].subs <= MaxSubs

Flat(runs) == LET F[k \in 0..Len(runs)] ==
                    IF k = 0 THEN <<>>
                    ELSE F[k - 1] \o [j \in 1..runs[k].n |-> <<runs[k].size, runs[k].cid>>]
              IN F[Len(runs)]

\* C01: a block once appended never changes, indices are never reused
AppendOnly == [][\A k \in DOMAIN truth : IsPrefix(Flat(truth[k]), Flat(truth'[k]))]_absvars
\* C04: a replica never believes more than the writer signed
ReplicaBelowTruth == cores["r"].len <= RLen(truth["k1"])
\* C12: a read-only core never extends the log
ReadOnlyFrozen == [][~cores["w"].writable => truth' = truth]_absvars
\* C12: sealed implies read-only, and stays so
SealedReadOnly == \A c \in DOMAIN cores : cores[c].sealed => ~cores[c].writable
\* run lists stay well formed
RunsOK == \A k \in DOMAIN truth : \A j \in 1..Len(truth[k]) :
            /\ truth[k][j].n > 0
            /\ truth[k][j].s = (IF j = 1 THEN 0 ELSE truth[k][j - 1].s + truth[k][j - 1].n)
            /\ truth[k][j].off = (IF j = 1 THEN 0 ELSE truth[k][j - 1].off + truth[k][j - 1].n * truth[k][j - 1].size)
=============================================================================
