----------------------------- MODULE TraceShared -----------------------------
(***************************************************************************)
(* Linearizability of recorded shared-core histories (C15, DESIGN 3.3).    *)
(*                                                                         *)
(* The trace lists invocations and responses of several tasks in the order *)
(* the deterministic scheduler produced them.  Between its invocation and  *)
(* its response each call takes effect at one instant (TLin, a silent step *)
(* TLC places wherever it can): the effect and the result are those of     *)
(* HcAbs!Outcome on the then-current state.  A history is accepted iff     *)
(* some placement of the linearization points reproduces every logged      *)
(* result and the final projection of the core.                            *)
(***************************************************************************)
EXTENDS HcAbs, Json, IOUtils

Rec == ndJsonDeserialize(IOEnv.TRACE)

VARIABLES l, pend
svars == <<truth, cores, l, pend>>
NoPend == <<>>

SReset(E) ==
  /\ E.e = "reset"
  /\ truth' = <<>> /\ cores' = <<>> /\ pend' = NoPend

\* the shared core before the tasks start: a writer holding E.pre, or a replica of that log
SStart(E) ==
  /\ E.e = "start"
  /\ LET log == RExtend(<<>>, E.pre) n == RLen(log) IN
     /\ truth' = ("k1" :> log)
     \* a writer holds everything; a replica starts from what it had synced before it was
     \* shared (taken from the logged projection, which ViewOK then checks against the log)
     /\ cores' = (E.c :> [key |-> "k1", len |-> IF E.writer THEN n ELSE E.view.len,
                          held |-> IF E.writer THEN (IF n > 0 THEN <<<<0, n>>>> ELSE <<>>) ELSE E.view.held,
                          writable |-> E.writer, subs |-> 0, sealed |-> ~E.writer])
  /\ ViewOK(E.c, E.view)'
  /\ pend' = NoPend

SInv(E) ==
  /\ E.e = "inv"
  /\ E.t \notin DOMAIN pend
  /\ pend' = (E.t :> [op |-> E.op, c |-> E.c, lin |-> FALSE, ret |-> [t |-> "?"]]) @@ pend
  /\ UNCHANGED <<truth, cores>>

SRes(E) ==
  /\ E.e = "res"
  /\ E.t \in DOMAIN pend
  /\ pend[E.t].lin
  /\ pend[E.t].ret = E.ret
  /\ pend' = [u \in DOMAIN pend \ {E.t} |-> pend[u]]
  /\ UNCHANGED <<truth, cores>>

SFinal(E) ==
  /\ E.e = "final"
  /\ DOMAIN pend = {}
  /\ ViewOK(E.c, E.view)
  /\ UNCHANGED <<truth, cores, pend>>

\* the linearization point of task u's outstanding call
SLin(u) ==
  /\ u \in DOMAIN pend /\ ~pend[u].lin
  \* a proof whose signature was altered in transit ("forged") must be refused and change nothing
  /\ \E r \in {IF pend[u].op.o = "forged" THEN [truth |-> truth, cores |-> cores, ret |-> [t |-> "refused"]]
                ELSE Outcome(pend[u].c, pend[u].op)} :
       /\ truth' = r.truth /\ cores' = r.cores
       /\ pend' = [pend EXCEPT ![u].lin = TRUE,
                               ![u].ret = IF pend[u].op.o = "proof" /\ r.ret.t # "ok"
                                          THEN [t |-> "refused"] ELSE r.ret]
  /\ UNCHANGED l

SNext ==
  \/ /\ l <= Len(Rec)
     /\ l' = l + 1
     /\ \E E \in {Rec[l]} : SReset(E) \/ SStart(E) \/ SInv(E) \/ SRes(E) \/ SFinal(E)
  \/ \E u \in DOMAIN pend : SLin(u)

SInit == truth = <<>> /\ cores = <<>> /\ pend = NoPend /\ l = 1 /\ TLCSet(1, 1)
SSpec == SInit /\ [][SNext]_svars

\* silent steps make the depth of the search useless as a progress measure: remember the
\* highest line reached (register of the single worker)
Track == TLCSet(1, IF l > TLCGet(1) THEN l ELSE TLCGet(1))
SAccepted ==
  IF TLCGet(1) > Len(Rec) THEN TRUE
  ELSE /\ PrintT(<<"UNMATCHED", TLCGet(1), ToJson(Rec[TLCGet(1)])>>)
       /\ FALSE
SInv2 == TypeOK
=============================================================================
