----------------------------- MODULE SharedInd -----------------------------
(***************************************************************************)
(* Unbounded companion of Shared.tla (C15), written for Apalache.          *)
(*                                                                         *)
(* Shared.tla is checked by TLC for three tasks with two calls each.  This *)
(* module keeps its actions (Invoke, Acquire, Step1, Step2; Atomic = TRUE, *)
(* the implementation as written) but lets every task issue ANY number of  *)
(* calls, choosing "append" or "read" at each Invoke, and replaces the     *)
(* result sequences by three integer ghosts:                               *)
(*   count   - appends that have returned                                  *)
(*   last    - the length the most recent append returned                  *)
(*   partial - a read has observed the "being modified" flag               *)
(* "Append outcomes form a gap-free increasing sequence" is then the       *)
(* action property  Step2 => last' = count' (the k-th append to return     *)
(* returns k), carried by the state invariant  last = count = len.         *)
(*                                                                         *)
(* IndInv is inductive:  Init => IndInv  (apalache --length=0) and         *)
(* IndInv /\ Next => IndInv'  (--init=IndInit --length=1), so GapFreeInd,  *)
(* NoPartialInd and MutexInd hold in every reachable state for any number  *)
(* of calls, not only within TLC's bound.                                  *)
(***************************************************************************)
EXTENDS Integers

Tasks == {1, 2, 3}

VARIABLES
  \* @type: Int;
  lock,
  \* @type: Int -> Str;
  st,
  \* @type: Int -> Str;
  cur,
  \* @type: Int -> Int;
  tmp,
  \* @type: Int;
  len,
  \* @type: Bool;
  dirty,
  \* @type: Int;
  count,
  \* @type: Int;
  last,
  \* @type: Bool;
  partial

Init == /\ lock = 0 /\ len = 0 /\ dirty = FALSE /\ count = 0 /\ last = 0 /\ partial = FALSE
        /\ st = [t \in Tasks |-> "idle"] /\ cur = [t \in Tasks |-> "read"]
        /\ tmp = [t \in Tasks |-> 0]

Invoke(t) == /\ st[t] = "idle"
             /\ \E c \in {"append", "read"} : cur' = [cur EXCEPT ![t] = c]
             /\ st' = [st EXCEPT ![t] = "want"]
             /\ UNCHANGED <<lock, tmp, len, dirty, count, last, partial>>

Acquire(t) == /\ st[t] = "want" /\ lock = 0
              /\ lock' = t
              /\ st' = [st EXCEPT ![t] = "rd"]
              /\ UNCHANGED <<cur, tmp, len, dirty, count, last, partial>>

Step1(t) == /\ st[t] = "rd" /\ lock = t
            /\ IF cur[t] = "append"
               THEN /\ tmp' = [tmp EXCEPT ![t] = len]
                    /\ dirty' = TRUE
                    /\ st' = [st EXCEPT ![t] = "wr"]
                    /\ UNCHANGED <<lock, cur, len, count, last, partial>>
               ELSE /\ partial' = (partial \/ dirty)
                    /\ st' = [st EXCEPT ![t] = "idle"]
                    /\ lock' = 0
                    /\ UNCHANGED <<cur, tmp, len, dirty, count, last>>

Step2(t) == /\ st[t] = "wr" /\ lock = t
            /\ len' = tmp[t] + 1
            /\ dirty' = FALSE
            /\ count' = count + 1
            /\ last' = tmp[t] + 1
            /\ st' = [st EXCEPT ![t] = "idle"]
            /\ lock' = 0
            /\ UNCHANGED <<cur, tmp, partial>>

Next == \E t \in Tasks : Invoke(t) \/ Acquire(t) \/ Step1(t) \/ Step2(t)

TypeOK == /\ lock \in Tasks \union {0}
          /\ st \in [Tasks -> {"idle", "want", "rd", "wr"}]
          /\ cur \in [Tasks -> {"append", "read"}]
          /\ tmp \in [Tasks -> Nat]
          /\ len \in Nat /\ count \in Nat /\ last \in Nat
          /\ dirty \in BOOLEAN /\ partial \in BOOLEAN

\* the properties of C15, in ghost form
GapFreeInd   == last = count /\ count = len
NoPartialInd == ~partial
MutexInd     == \A t \in Tasks : st[t] \in {"rd", "wr"} => lock = t

IndInv == /\ TypeOK
          /\ GapFreeInd /\ NoPartialInd
          /\ \A t \in Tasks : (st[t] \in {"rd", "wr"}) <=> (lock = t)
          /\ (lock = 0 => ~dirty)
          /\ \A t \in Tasks : st[t] = "rd" => ~dirty
          /\ \A t \in Tasks : st[t] = "wr" => (dirty /\ tmp[t] = len /\ cur[t] = "append")

IndInit == IndInv

\* the action property itself: the k-th append to return returns k
GapFreeStep == (count' = count + 1) => (last' = count' /\ len' = count')
=============================================================================
