SPECIFICATION SSpec
CONSTANTS Sizes <- MCSizes5
          Mut = "none"
VIEW NoHist
INVARIANTS ExportSeek
CHECK_DEADLOCK FALSE
