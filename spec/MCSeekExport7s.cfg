SPECIFICATION SSpec
CONSTANTS Sizes <- MCSizes7
          Mut = "none"
VIEW NoHist
CONSTRAINT ShortHist
INVARIANTS ExportSeekSel SeekUpAccepted
CHECK_DEADLOCK FALSE
