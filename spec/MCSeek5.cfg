SPECIFICATION SSpec
CONSTANTS Sizes <- MCSizes5
          Mut = "none"
VIEW NoHist
INVARIANTS SeekAccepted SeekInside SeekUpAccepted PartialAccepted PartialForgeSound StoredTrue HonestAccepted
CHECK_DEADLOCK FALSE
