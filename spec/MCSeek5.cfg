SPECIFICATION SSpec
CONSTANTS Sizes <- MCSizes5
          Mut = "none"
VIEW NoHist
INVARIANTS SeekAccepted SeekInside SeekUpAccepted PartialAccepted StoredTrue HonestAccepted
CHECK_DEADLOCK FALSE
