------------------------------- MODULE Shared -------------------------------
(***************************************************************************)
(* Tasks around one lock (C15, DESIGN 2.6).                                *)
(*                                                                         *)
(* SharedCore wraps the core in one asynchronous mutex; every trait method *)
(* locks, performs the whole operation - several storage operations, each  *)
(* of them a point where the executor may switch tasks - and unlocks.      *)
(* The model keeps the core abstract (its length, the blocks it holds and  *)
(* a "being modified" flag that is raised between the first and the last   *)
(* storage operation of an append) and makes every lock acquisition and    *)
(* every storage operation a separate step of a task.                      *)
(*                                                                         *)
(* Atomic = TRUE is the implementation as written.  Atomic = FALSE is the  *)
(* deliberate deviation "the lock is released between the steps of an      *)
(* operation"; TLC must refute it (non-vacuity of the properties).         *)
(***************************************************************************)
EXTENDS Naturals, Sequences, FiniteSets, TLC

CONSTANTS Tasks,      \* e.g. {1, 2, 3}
          Calls,      \* function task -> sequence of "append" | "read"
          Atomic      \* whole call under the lock?

VARIABLES lock,       \* 0 = free, else the task holding it
          pc,         \* task -> index of the call it is working on
          st,         \* task -> "idle" | "want" | "rd" | "wr" | "done-call"
          tmp,        \* task -> the length it read at the start of its append
          len,        \* committed length of the log
          dirty,      \* an append has written data but not yet committed (partial state)
          results     \* task -> sequence of results, one per finished call
vars == <<lock, pc, st, tmp, len, dirty, results>>

Init == /\ lock = 0 /\ len = 0 /\ dirty = FALSE
        /\ pc = [t \in Tasks |-> 1] /\ st = [t \in Tasks |-> "idle"]
        /\ tmp = [t \in Tasks |-> 0] /\ results = [t \in Tasks |-> <<>>]

Cur(t) == Calls[t][pc[t]]
Active(t) == pc[t] <= Len(Calls[t])

Invoke(t) == /\ Active(t) /\ st[t] = "idle"
             /\ st' = [st EXCEPT ![t] = "want"]
             /\ UNCHANGED <<lock, pc, tmp, len, dirty, results>>

Acquire(t) == /\ st[t] = "want" /\ lock = 0
              /\ lock' = t
              /\ st' = [st EXCEPT ![t] = "rd"]
              /\ UNCHANGED <<pc, tmp, len, dirty, results>>

\* first storage operation of an append: the new block's data is written, based on the length
\* read now; a read observes the current state
Step1(t) == /\ st[t] = "rd" /\ lock = t
            /\ IF Cur(t) = "append"
               THEN /\ tmp' = [tmp EXCEPT ![t] = len]
                    /\ dirty' = TRUE
                    /\ st' = [st EXCEPT ![t] = "wr"]
                    /\ lock' = IF Atomic THEN t ELSE 0      \* the deviation: unlock in between
                    /\ UNCHANGED <<pc, len, results>>
               ELSE /\ results' = [results EXCEPT ![t] = Append(@, [op |-> "read", len |-> len, partial |-> dirty])]
                    /\ st' = [st EXCEPT ![t] = "idle"]
                    /\ pc' = [pc EXCEPT ![t] = @ + 1]
                    /\ lock' = 0
                    /\ UNCHANGED <<tmp, len, dirty>>

Reacquire(t) == /\ ~Atomic /\ st[t] = "wr" /\ lock = 0
                /\ lock' = t
                /\ UNCHANGED <<pc, st, tmp, len, dirty, results>>

\* last storage operation of an append: commit and return the new length
Step2(t) == /\ st[t] = "wr" /\ lock = t
            /\ len' = tmp[t] + 1
            /\ dirty' = FALSE
            /\ results' = [results EXCEPT ![t] = Append(@, [op |-> "append", len |-> tmp[t] + 1, partial |-> FALSE])]
            /\ st' = [st EXCEPT ![t] = "idle"]
            /\ pc' = [pc EXCEPT ![t] = @ + 1]
            /\ lock' = 0
            /\ UNCHANGED tmp

Next == \E t \in Tasks : Invoke(t) \/ Acquire(t) \/ Step1(t) \/ Reacquire(t) \/ Step2(t)
Spec == Init /\ [][Next]_vars /\ WF_vars(Next)

AllResults == UNION {{results[t][k] : k \in 1..Len(results[t])} : t \in Tasks}
AppendLens == {r.len : r \in {x \in AllResults : x.op = "append"}}
NAppends == Cardinality({<<t, k>> \in Tasks \X (1..3) : k <= Len(results[t]) /\ results[t][k].op = "append"})

\* C15: append outcomes form a gap-free increasing sequence of lengths ...
GapFree == AppendLens = 1..NAppends
\* ... each task's own outcomes increase ...
PerTaskIncreasing ==
  \A t \in Tasks : \A i, j \in 1..Len(results[t]) :
     i < j /\ results[t][i].op = "append" /\ results[t][j].op = "append" => results[t][i].len < results[t][j].len
\* ... and no call ever observes a partially applied append
NoPartial == \A r \in AllResults : ~r.partial
\* mutual exclusion of the critical sections
Mutex == \A t \in Tasks : st[t] \in {"rd", "wr"} /\ Atomic => lock = t
\* every call eventually returns (no deadlock on the lock)
AllDone == <>(\A t \in Tasks : ~Active(t))
=============================================================================
