SPECIFICATION Spec
CONSTANTS MaxLen = 3
          MaxSubs = 1
CONSTRAINT Bound
INVARIANTS SealedReadOnly TypeOK ContigExact ReplicaBelowTruth RunsOK
PROPERTIES AppendOnly ReadOnlyFrozen
CHECK_DEADLOCK FALSE
