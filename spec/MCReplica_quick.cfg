SPECIFICATION Spec
CONSTANTS MaxLen = 3
          MaxCalls = 2
          MaxCrashes = 2
          MaxTorn = 1
          PageBits = 2
          Cadence = "free"
          Role = "replica"
          TruncOnOpen = TRUE
          Mut = "none"
VIEW NoHist
INVARIANTS JournalInEnvelope TypeOK RecoverNodes RecoverOK RecoverContig MemView TreeSound HeaderBitProtocol KeyHygiene
CHECK_DEADLOCK FALSE
