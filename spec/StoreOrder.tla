----------------------------- MODULE StoreOrder -----------------------------
(***************************************************************************)
(* The order of mutating storage operations within one API call, as a      *)
(* language over operation classes.  HcStore's behaviours are checked to   *)
(* stay inside it (MCStore invariant JournalInEnvelope), and the journal   *)
(* of every recorded call of the real crate is matched against it during   *)
(* trace validation: a call outside the envelope is reported as DRIFT (the *)
(* code has left the part of the design TLC verified), not as a violation. *)
(*                                                                         *)
(* classes: a_data (block bytes), entry (oplog entry), c_del (data hole),  *)
(* f_pages, f_nodes, f_hdr / f_hdr2 (header slot), f_trunc / f_trunc2      *)
(* The language does not count pages or nodes (DropWhile), so the recorder *)
(* logs a run of f_pages or of f_nodes once: a bulk append of 32767 blocks *)
(* flushes 65519 nodes, and a sequence that long exhausted TLC's heap.     *)
(***************************************************************************)
EXTENDS Naturals, Sequences

RECURSIVE DropWhile(_, _)
DropWhile(s, x) == IF s # <<>> /\ Head(s) = x THEN DropWhile(Tail(s), x) ELSE s
DropOne(s, x) == IF s # <<>> /\ Head(s) = x THEN Tail(s) ELSE s
StartsWith(s, x) == s # <<>> /\ Head(s) = x

\* pages and nodes before the header, the header before the truncation
IsFlush(s) == LET r == DropWhile(DropWhile(s, "f_pages"), "f_nodes") IN r = <<"f_hdr", "f_trunc">>
IsMroFlush(s) == LET r == DropWhile(DropWhile(s, "f_pages"), "f_nodes") IN
                 r = <<"f_hdr", "f_trunc", "f_hdr2", "f_trunc2">>
FlushOrNothing(s) == s = <<>> \/ IsFlush(s)

\* kind: the operation; took: whether it took effect (a refused or empty call issues nothing)
CallOrderOK(kind, took, jc) ==
  CASE kind = "append" -> IF ~took THEN jc = <<>>
                          ELSE /\ Len(jc) >= 2 /\ jc[1] = "a_data" /\ jc[2] = "entry"      \* data before the commit point
                               /\ FlushOrNothing(SubSeq(jc, 3, Len(jc)))
    [] kind = "clear" -> IF ~took THEN jc = <<>>
                         ELSE /\ StartsWith(jc, "entry")
                              /\ FlushOrNothing(DropOne(Tail(jc), "c_del"))
    [] kind = "proof" -> IF ~took THEN jc = <<>>
                         ELSE LET r == DropOne(jc, "a_data") IN          \* the block, if any, before the entry
                              /\ StartsWith(r, "entry")
                              /\ FlushOrNothing(Tail(r))
    [] kind = "mro" -> IF ~took THEN jc = <<>> ELSE IsMroFlush(jc)
    [] kind = "reopen" -> jc = <<>> \/ jc = <<"f_trunc">>              \* leftovers cut off on open
    [] OTHER -> jc = <<>>
=============================================================================
