SPECIFICATION Spec
CONSTANTS MaxLen = 3
          MaxCalls = 4
          MaxCrashes = 2
          MaxTorn = 1
          PageBits = 2
          Cadence = "free"
          TruncOnOpen = TRUE
          Mut = "none"
VIEW NoHist
INVARIANTS JournalInEnvelope TypeOK RecoverOK RecoverContig MemView TreeSound HeaderBitProtocol KeyHygiene
CHECK_DEADLOCK FALSE
