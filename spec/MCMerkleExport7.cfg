SPECIFICATION Spec
CONSTANTS Sizes <- MCSizes7
          Mut = "none"
VIEW NoHist
INVARIANTS Export
CHECK_DEADLOCK FALSE
