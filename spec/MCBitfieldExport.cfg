SPECIFICATION Spec
CONSTANTS PageBits = 2
          NPages = 4
          MaxCalls = 3
          Mut = "none"
VIEW NoHist
INVARIANTS Export MemExact RecoverExact IndexOfOK Below
CHECK_DEADLOCK FALSE
