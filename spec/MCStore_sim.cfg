SPECIFICATION Spec
CONSTANTS MaxLen = 6
          MaxCalls = 9
          MaxCrashes = 3
          MaxTorn = 2
          PageBits = 2
          Cadence = "code"
          Role = "writer"
          TruncOnOpen = TRUE
          Mut = "none"
INVARIANTS JournalInEnvelope TypeOK RecoverNodes RecoverOK RecoverContig MemView TreeSound HeaderBitProtocol KeyHygiene
CHECK_DEADLOCK FALSE
