------------------------------- MODULE Merkle -------------------------------
(***************************************************************************)
(* Proof verification with symbolic cryptography (DESIGN 2.4, C03/C04).    *)
(*                                                                         *)
(* Hashes and signatures are terms: Leaf(size, value), Par(size, hl, hr),  *)
(* TreeHash(<<root entries>>), Sig(key, treehash, length, fork).  Term     *)
(* equality stands for equality of digests (perfect hashing) and a         *)
(* signature verifies iff it is the term the writer produced (perfect      *)
(* signatures).                                                            *)
(*                                                                         *)
(* The verifier is a transcription of src/tree/merkle_tree.rs verify_tree, *)
(* verify_upgrade (incl. the additional nodes of partial upgrades), the comparison      *)
(* with the locally stored node in verify_proof, and commitable.  The      *)
(* honest proof for a request is *derived from the verifier*: it is the    *)
(* list of nodes the verifier asks its queue for when every answer is the  *)
(* true node.  The crate's prover is checked against that list by the      *)
(* harness (spec -> implementation), the crate's verifier against the      *)
(* accept/refuse decisions (implementation -> spec).                       *)
(***************************************************************************)
EXTENDS Naturals, Integers, Sequences, FiniteSets, FlatTree, TLC, IOUtils

CONSTANTS Sizes      \* sequence of block sizes of the writer's log, e.g. <<1, 2, 1, 1, 2>>
SeekMut == IF "SEEKMUT" \in DOMAIN IOEnv THEN IOEnv.SEEKMUT ELSE "none"

WLen == Len(Sizes)
None == [none |-> TRUE]
IsNone(x) == "none" \in DOMAIN x

---------------------------------------------------------------------------
(* Terms *)
Leaf(size, val) == <<"L", size, val>>
Par(size, hl, hr) == <<"P", size, hl, hr>>
N(idx, size, h) == [idx |-> idx, size |-> size, h |-> h]

\* the true value of block b is b + 1; 0 is a value the writer never wrote
RECURSIVE TrueNode(_)
TrueNode(i) ==
  IF i % 2 = 0 THEN N(i, Sizes[i \div 2 + 1], Leaf(Sizes[i \div 2 + 1], i \div 2 + 1))
  ELSE LET l == TrueNode(LeftChild(i)) r == TrueNode(RightChild(i)) IN
       N(i, l.size + r.size, Par(l.size + r.size, l.h, r.h))

\* parent of two nodes (Hash::parent orders by index)
ParentOf(a, b) ==
  LET l == IF a.idx <= b.idx THEN a ELSE b
      r == IF a.idx <= b.idx THEN b ELSE a IN
  N(Parent(a.idx), a.size + b.size, Par(a.size + b.size, l.h, r.h))

TreeHash(roots) == <<"T", [k \in 1..Len(roots) |-> <<roots[k].h, roots[k].idx, roots[k].size>>]>>
Sig(key, th, len, fork) == <<"S", key, th, len, fork>>
TrueRoots(n) == LET r == FullRoots(n) IN [k \in 1..Len(r) |-> TrueNode(r[k])]
TrueSig(n) == Sig("writer", TreeHash(TrueRoots(n)), n, 0)

---------------------------------------------------------------------------
(* Replica: rl = verified length, have = indices of stored (verified) nodes *)
Stored(rep, i) == i \in rep.have
RepRoots(rep) == TrueRoots(rep.rl)     \* stored nodes are true nodes (invariant StoredTrue)

\* MerkleTree::missing_nodes
RECURSIVE MissingFrom(_, _, _)
MissingFrom(rep, i, head) ==
  IF Contains(i, head) \/ Stored(rep, i) THEN 0 ELSE 1 + MissingFrom(rep, Parent(i), head)
MissingNodes(rep, i) == IF RightSpan(i) >= 2 * rep.rl THEN 0 ELSE MissingFrom(rep, i, 2 * rep.rl)

---------------------------------------------------------------------------
(* Node queue: nodes handed over in order, plus an optional extra node that is used when asked for *)
Q(nodes, extra) == [nodes |-> nodes, i |-> 1, extra |-> extra, asked |-> <<>>]
QLen(q) == (Len(q.nodes) - q.i + 1) + (IF IsNone(q.extra) THEN 0 ELSE 1)
\* result [ok, node, q]; in oracle mode (Oracle = TRUE) every request is answered by the true node
Shift(q, idx, oracle) ==
  IF ~IsNone(q.extra) /\ q.extra.idx = idx
  THEN [ok |-> TRUE, node |-> q.extra, q |-> [q EXCEPT !.extra = None]]
  ELSE IF oracle
  THEN [ok |-> TRUE, node |-> TrueNode(idx), q |-> [q EXCEPT !.asked = Append(@, idx)]]
  ELSE IF q.i > Len(q.nodes) THEN [ok |-> FALSE, node |-> None, q |-> q]
  ELSE IF q.nodes[q.i].idx # idx THEN [ok |-> FALSE, node |-> None, q |-> [q EXCEPT !.i = @ + 1]]
  ELSE [ok |-> TRUE, node |-> q.nodes[q.i], q |-> [q EXCEPT !.i = @ + 1]]

---------------------------------------------------------------------------
(* verify_tree for a block (or hash) section: climb from the node, one sibling per queued node *)
RECURSIVE Climb(_, _, _, _, _)
\* cur = node computed so far, cn = nodes collected for the changeset
Climb(cur, q, cn, steps, oracle) ==
  IF (oracle /\ steps = 0) \/ (~oracle /\ QLen(q) = 0) THEN [ok |-> TRUE, root |-> cur, nodes |-> cn, q |-> q]
  ELSE LET s == Shift(q, Sibling(cur.idx), oracle) IN
       IF ~s.ok THEN [ok |-> FALSE, root |-> cur, nodes |-> cn, q |-> s.q]
       ELSE LET p == ParentOf(cur, s.node) IN
            Climb(p, s.q, cn \o <<s.node, p>>, steps - 1, oracle)

\* block section: [i, val, nodes]; k = number of nodes an honest proof carries (from missing_nodes)
\* extra: the root of the seek section when there is one (NodeQueue::new(nodes, root)), else None
VerifyBlockX(blk, k, oracle, extra) ==
  LET leaf == N(2 * blk.i, blk.size, Leaf(blk.size, blk.val)) IN    \* block_node(index, value)
  Climb(leaf, Q(blk.nodes, extra), <<leaf>>, k, oracle)
VerifyBlock(blk, k, oracle) == VerifyBlockX(blk, k, oracle, None)

\* hash section [i, nodes]: the first node is the requested node itself, then siblings as above
VerifyHashX(hs, k, oracle, extra) ==
  LET s == Shift(Q(hs.nodes, extra), hs.i, oracle) IN
  IF ~s.ok THEN [ok |-> FALSE, root |-> None, nodes |-> <<>>, q |-> s.q]
  ELSE Climb(s.node, s.q, <<s.node>>, k, oracle)
VerifyHash(hs, k, oracle) == VerifyHashX(hs, k, oracle, None)

\* seek section: the first node is where the prover's seek ended, then one sibling per node up to the
\* node that the block (or hash) section takes as the sibling it does not carry itself
VerifySeek(nodes) ==
  IF nodes = <<>> THEN [ok |-> TRUE, root |-> None, nodes |-> <<>>]
  ELSE LET r == Climb(nodes[1], Q(Tail(nodes), None), <<nodes[1]>>, 0, FALSE) IN
       [ok |-> r.ok, root |-> r.root, nodes |-> r.nodes]

---------------------------------------------------------------------------
(* MerkleTreeChangeset::append_root: push, then merge equal-height neighbours *)
RECURSIVE Merge(_, _)
Merge(roots, cn) ==
  IF Len(roots) > 1 /\ Sibling(roots[Len(roots)].idx) = roots[Len(roots) - 1].idx
  THEN LET p == ParentOf(roots[Len(roots)], roots[Len(roots) - 1]) IN
       Merge(Append(SubSeq(roots, 1, Len(roots) - 2), p), Append(cn, p))
  ELSE [roots |-> roots, nodes |-> cn]
AppendRoot(st, node) ==
  LET m == Merge(Append(st.roots, node), Append(st.nodes, node)) IN
  [st EXCEPT !.roots = m.roots, !.nodes = m.nodes, !.len = @ + Pow2(Depth(node.idx)), !.upgraded = TRUE]

(* verify_upgrade: st = [roots, nodes, len, upgraded, q, ok] *)
\* climb from the replica's last root until the last root of the changeset is `target`; each step
\* takes the sibling of the current last root from the queue (append_root merges as far as it can)
RECURSIVE Grow(_, _, _)
Grow(st, target, oracle) ==
  LET cur == st.roots[Len(st.roots)].idx IN
  IF cur = target \/ ~st.ok THEN st
  ELSE IF ~Contains(target, cur) THEN [st EXCEPT !.ok = FALSE]     \* cannot reach it any more
  ELSE LET s == Shift(st.q, Sibling(cur), oracle) IN
       IF ~s.ok THEN [st EXCEPT !.ok = FALSE, !.q = s.q]
       ELSE Grow([AppendRoot(st, s.node) EXCEPT !.q = s.q], target, oracle)

RECURSIVE UpRoots(_, _, _, _, _, _)
\* fr = full roots of the target length still to visit; i = matched prefix of the replica's roots
UpRoots(st, fr, i, grow, oracle, nrep) ==
  IF fr = <<>> \/ ~st.ok THEN st
  ELSE LET R == Head(fr) IN
       IF i < Len(st.roots) /\ st.roots[i + 1].idx = R
       THEN UpRoots(st, Tail(fr), i + 1, grow, oracle, nrep)
       ELSE IF grow /\ i < Len(st.roots)
       THEN UpRoots(Grow(st, R, oracle), Tail(fr), i, FALSE, oracle, nrep)
       ELSE LET s == Shift(st.q, R, oracle) IN
            IF ~s.ok THEN [st EXCEPT !.ok = FALSE, !.q = s.q]
            ELSE UpRoots([AppendRoot(st, s.node) EXCEPT !.q = s.q], Tail(fr), i, FALSE, oracle, nrep)

(* additional nodes (partial upgrade: the requested length is below the writer's): the tree of the  *)
(* requested length is continued to the signed length.  Unlike the nodes above these are not asked *)
(* for by index: the verifier follows what it is given - first the nodes that merge with the last   *)
(* root (its sibling, then the sibling of the merged root, ...), then roots further right, each     *)
(* found by descending to the left from the position behind the last root.                          *)
LastRoot(st) == st.roots[Len(st.roots)].idx
RECURSIVE ExtraMerge(_, _, _)
\* result [st, i, it]: it = where the iterator stands when the first loop ends
ExtraMerge(st, extra, i) ==
  IF i > Len(extra) THEN [st |-> st, i |-> i, it |-> LastRoot(st)]
  ELSE LET sib == Sibling(LastRoot(st)) IN
       IF extra[i].idx = sib THEN ExtraMerge(AppendRoot(st, extra[i]), extra, i + 1)
       ELSE [st |-> st, i |-> i, it |-> sib]
RECURSIVE Descend(_, _)
Descend(it, target) == IF it = target THEN it ELSE IF it % 2 = 0 THEN -1 ELSE Descend(LeftChild(it), target)
RECURSIVE ExtraRoots(_, _, _, _)
ExtraRoots(st, extra, i, it) ==
  IF i > Len(extra) THEN [ok |-> TRUE, st |-> st]
  ELSE IF Descend(it, extra[i].idx) < 0 THEN [ok |-> FALSE, st |-> st]
  ELSE LET st2 == AppendRoot(st, extra[i]) IN ExtraRoots(st2, extra, i + 1, Sibling(LastRoot(st2)))
Extra(st, extra) ==
  IF extra = <<>> THEN [ok |-> TRUE, st |-> st]
  ELSE LET m == ExtraMerge(st, extra, 1) IN ExtraRoots(m.st, extra, m.i, m.it)

\* up = [start, length, nodes, extra, sig]; returns the changeset or a refusal
VerifyUpgrade(rep, up, blockroot, fork, oracle) ==
  LET st0 == [roots |-> RepRoots(rep), nodes |-> <<>>, len |-> rep.rl, upgraded |-> FALSE,
              q |-> Q(up.nodes, blockroot), ok |-> TRUE]
      st1 == UpRoots(st0, FullRoots(up.start + up.length), 0, RepRoots(rep) # <<>>, oracle, rep.rl)
  IN IF ~st1.ok THEN [ok |-> FALSE, why |-> "node queue"]
     ELSE IF st1.roots = <<>> THEN [ok |-> FALSE, why |-> "no roots"]
     ELSE IF ~Extra(st1, up.extra).ok THEN [ok |-> FALSE, why |-> "additional nodes"]
     ELSE LET st2 == Extra(st1, up.extra).st
              sig == Sig("writer", TreeHash(st2.roots), st2.len, fork) IN
          IF ~oracle /\ up.sig # sig THEN [ok |-> FALSE, why |-> "signature"]
          ELSE [ok |-> TRUE, roots |-> st2.roots, nodes |-> st2.nodes, len |-> st2.len,
                upgraded |-> st2.upgraded, consumed |-> IsNone(st1.q.extra), asked |-> st1.q.asked,
                sig |-> sig]

---------------------------------------------------------------------------
(* verify_proof + commitable (src/core.rs verify_and_apply_proof).          *)
(* proof = [fork, block | None, hash | None, up | None]; mut names a deviation *)
\* seeknodes: the nodes of the proof's seek section (<<>>: none)
VerifyProofX(rep, proof, k, oracle, mut, seeknodes) ==
  IF proof.fork # 0 THEN [ok |-> FALSE, why |-> "fork"]
  ELSE IF ~VerifySeek(seeknodes).ok THEN [ok |-> FALSE, why |-> "seek nodes"]
  ELSE LET vs == VerifySeek(seeknodes) \* normalize_data: the block section if there is one, else the hash section; what is stored
           \* afterwards (src/core.rs) is always the block section's value
           useHash == IF mut = "hash_section_wins" THEN ~IsNone(proof.hash) ELSE IsNone(proof.block) /\ ~IsNone(proof.hash)
           vb == IF useHash THEN VerifyHashX(proof.hash, k, oracle, vs.root)
                 ELSE IF IsNone(proof.block) THEN [ok |-> TRUE, root |-> vs.root, nodes |-> <<>>, q |-> Q(<<>>, None)]
                 ELSE VerifyBlockX(proof.block, k, oracle, vs.root) IN
       IF ~vb.ok THEN [ok |-> FALSE, why |-> "block nodes"]
       ELSE LET vu == IF IsNone(proof.up)
                      THEN [ok |-> TRUE, roots |-> RepRoots(rep), nodes |-> <<>>, len |-> rep.rl,
                            upgraded |-> FALSE, consumed |-> FALSE, asked |-> <<>>]
                      ELSE VerifyUpgrade(rep, proof.up, vb.root, proof.fork, oracle)
            IN IF ~vu.ok THEN vu
               ELSE LET unverified == IF IsNone(vb.root) THEN None
                                      ELSE IF mut = "skip_block_root_with_upgrade" /\ ~IsNone(proof.up) THEN None
                                      ELSE IF vu.consumed THEN None ELSE vb.root
                    IN IF ~IsNone(unverified) /\ ~oracle /\
                          (~Stored(rep, unverified.idx) \/ TrueNode(unverified.idx).h # unverified.h)
                       THEN [ok |-> FALSE, why |-> "block root differs from the stored node"]
                       ELSE [ok |-> TRUE, len |-> vu.len, upgraded |-> vu.upgraded,
                             nodes |-> vs.nodes \o vb.nodes \o vu.nodes,
                             blk |-> IF IsNone(proof.block) THEN -1 ELSE proof.block.i,
                             val |-> IF IsNone(proof.block) THEN -1 ELSE proof.block.val,
                             bsize |-> IF IsNone(proof.block) THEN -1 ELSE proof.block.size,
                             askedBlock |-> vb.q.asked, askedUp |-> vu.asked]

VerifyProof(rep, proof, k, oracle, mut) == VerifyProofX(rep, proof, k, oracle, mut, <<>>)

\* applying an accepted changeset
Apply(rep, res) ==
  [rl |-> res.len,
   have |-> rep.have \cup {res.nodes[j].idx : j \in 1..Len(res.nodes)},
   blocks |-> IF res.blk >= 0 THEN rep.blocks \cup {res.blk} ELSE rep.blocks]

---------------------------------------------------------------------------
(* Honest proofs, derived from the verifier in oracle mode *)
\* request: block b (or -1), upgrade to the writer's length iff the replica is behind
HonestUp(rep, wl) == IF rep.rl < wl THEN [start |-> rep.rl, length |-> wl - rep.rl] ELSE None
\* the nodes an upgrade-only proof must carry: what the verifier asks for in oracle mode
UpAsked(rep, wl) ==
  LET upreq == HonestUp(rep, wl) IN
  IF IsNone(upreq) THEN <<>>
  ELSE VerifyUpgrade(rep, [start |-> upreq.start, length |-> upreq.length, nodes |-> <<>>, extra |-> <<>>,
                           sig |-> TrueSig(wl)], None, 0, TRUE).asked
\* the same for an upgrade of a replica of length rl to length target (no block section)
UpAskedTo(rl, target) ==
  IF rl >= target THEN <<>>
  ELSE VerifyUpgrade([rl |-> rl, have |-> {}, blocks |-> {}],
                     [start |-> rl, length |-> target - rl, nodes |-> <<>>, extra |-> <<>>, sig |-> TrueSig(target)],
                     None, 0, TRUE).asked
\* a partial upgrade: the replica asks for length upto < wl; the proof carries the nodes for upto, then -
\* as additional nodes - what continues the tree of length upto to the writer's length, whose signature
\* is the only one the writer has
HonestPartialUp(rep, upto, wl) ==
  [fork |-> 0, block |-> None, hash |-> None,
   up |-> [start |-> rep.rl, length |-> upto - rep.rl,
           nodes |-> LET a == UpAskedTo(rep.rl, upto) IN [j \in 1..Len(a) |-> TrueNode(a[j])],
           extra |-> LET x == UpAskedTo(upto, wl) IN [j \in 1..Len(x) |-> TrueNode(x[j])],
           sig |-> TrueSig(wl)]]
InSeq(x, sq) == \E j \in 1..Len(sq) : sq[j] = x
\* how far the block section climbs: a block inside the tree the replica already has is proved up
\* to the first node the replica stores (count from its own missing_nodes query); a block in the
\* part being added is proved up to the node the upgrade needs there, which it then replaces
RECURSIVE ClimbTo(_, _)
ClimbTo(i, targets) == IF InSeq(i, targets) THEN 0 ELSE 1 + ClimbTo(Parent(i), targets)
\* request = block b (or -1) / hash of tree node h (or -1); at most one of them
HonestK(rep, b, h, wl) ==
  LET i == IF b >= 0 THEN 2 * b ELSE h IN
  IF i < 0 THEN 0
  ELSE IF LeftSpan(i) >= 2 * rep.rl /\ rep.rl < wl THEN ClimbTo(i, UpAsked(rep, wl))
  ELSE MissingNodes(rep, i)

HonestProof(rep, b, h, wl) ==
  LET k == HonestK(rep, b, h, wl)
      upreq == HonestUp(rep, wl)
      skel == [fork |-> 0,
               block |-> IF b < 0 THEN None ELSE [i |-> b, val |-> b + 1, size |-> Sizes[b + 1], nodes |-> <<>>],
               hash |-> IF h < 0 THEN None ELSE [i |-> h, nodes |-> <<>>],
               up |-> IF IsNone(upreq) THEN None
                      ELSE [start |-> upreq.start, length |-> upreq.length, nodes |-> <<>>, extra |-> <<>>,
                            sig |-> TrueSig(wl)]]
      r == VerifyProof(rep, skel, k, TRUE, "none")
      sect == [j \in 1..Len(r.askedBlock) |-> TrueNode(r.askedBlock[j])]
  IN [fork |-> 0,
      block |-> IF b < 0 THEN None ELSE [skel.block EXCEPT !.nodes = sect],
      hash |-> IF h < 0 THEN None ELSE [skel.hash EXCEPT !.nodes = sect],
      up |-> IF IsNone(upreq) THEN None
             ELSE [skel.up EXCEPT !.nodes = [j \in 1..Len(r.askedUp) |-> TrueNode(r.askedUp[j])]]]

\* index lists of an honest proof, for comparison with the crate's prover
Shape(p) == [block |-> IF IsNone(p.block) THEN <<>> ELSE [j \in 1..Len(p.block.nodes) |-> p.block.nodes[j].idx],
             hash |-> IF IsNone(p.hash) THEN <<>> ELSE [j \in 1..Len(p.hash.nodes) |-> p.hash.nodes[j].idx],
             up |-> IF IsNone(p.up) THEN <<>> ELSE [j \in 1..Len(p.up.nodes) |-> p.up.nodes[j].idx]]

---------------------------------------------------------------------------
(* Seek: the prover's side (src/tree/merkle_tree.rs seek_untrusted_tree, seek_trusted_tree,          *)
(* block_and_seek_proof, seek_proof), transcribed - unlike the block and upgrade sections, where the *)
(* seek section starts cannot be derived from the verifier.                                          *)
\* SeekMut = "absolute_bytes": the defect repaired in the crate (fix 17) as a deviation TLC must refute
ByteOffset(i) == LET n == LeftSpan(i) \div 2
                     F[k \in 0..n] == IF k = 0 THEN 0 ELSE F[k - 1] + Sizes[k] IN F[n]
\* the loop of seek_trusted_tree: descend from root, to the left while the left child is too big,
\* else to the right with the left child's bytes taken off; a left child of exactly `bytes` ends it
RECURSIVE SeekTrusted(_, _)
SeekTrusted(i, bytes) ==
  IF i % 2 = 0 THEN i
  ELSE LET l == LeftChild(i) sz == TrueNode(l).size IN
       IF sz = bytes THEN l
       ELSE IF sz > bytes THEN SeekTrusted(l, bytes)
       ELSE SeekTrusted(RightChild(i), bytes - sz)
\* -1: the request is refused ("Invalid seek"): the byte is not inside the sub tree
SeekUntrusted(root, bytes) ==
  LET off == ByteOffset(root) IN
  IF off > bytes THEN -1
  ELSE IF off = bytes THEN root
  ELSE IF TrueNode(root).size <= bytes - off THEN -1
  ELSE SeekTrusted(root, IF SeekMut = "absolute_bytes" THEN bytes ELSE bytes - off)
RECURSIVE NodesToRoot(_, _)
NodesToRoot(i, k) == IF k = 0 THEN i ELSE NodesToRoot(Parent(i), k - 1)
\* seek_proof: the seek root, then its siblings on the way up to (excluding) `top`
RECURSIVE SeekPath(_, _)
SeekPath(cur, top) == IF cur = top THEN <<>> ELSE <<TrueNode(Sibling(cur))>> \o SeekPath(Parent(cur), top)
SeekSection(seekroot, top) == <<TrueNode(seekroot)>> \o SeekPath(seekroot, top)
\* block_and_seek_proof: climb from the requested node to the sub tree root; the sibling that
\* contains the seek root (and is not it) is replaced by the seek section ending in it
RECURSIVE BlockAndSeek(_, _, _)
BlockAndSeek(cur, seekroot, root) ==
  IF cur = root THEN [nodes |-> <<>>, seek |-> <<>>]
  ELSE LET sib == Sibling(cur)
           rest == BlockAndSeek(Parent(cur), seekroot, root) IN
       IF Contains(sib, seekroot) /\ sib # seekroot
       THEN [nodes |-> rest.nodes, seek |-> SeekSection(seekroot, sib)]
       ELSE [nodes |-> <<TrueNode(sib)>> \o rest.nodes, seek |-> rest.seek]

\* a request for block b (or the hash of node h) inside the replica's tree with a seek to `bytes`;
\* ok = FALSE: the prover refuses (the byte lies outside the sub tree the nodes count spans)
HonestSeekProof(rep, b, h, bytes, wl) ==
  LET i == IF b >= 0 THEN 2 * b ELSE h
      k == MissingNodes(rep, i)
      sub == NodesToRoot(i, k)
      sr == SeekUntrusted(sub, bytes)
      base == HonestProof(rep, b, h, wl)       \* for the upgrade section
      bs == BlockAndSeek(i, sr, sub)
      sect == (IF b >= 0 THEN <<>> ELSE <<TrueNode(h)>>) \o bs.nodes IN
  IF sr < 0 THEN [ok |-> FALSE]
  ELSE [ok |-> TRUE, seekroot |-> sr, sub |-> sub,
        proof |-> [base EXCEPT !.block = IF b < 0 THEN None ELSE [@ EXCEPT !.nodes = sect],
                               !.hash = IF h < 0 THEN None ELSE [@ EXCEPT !.nodes = sect]],
        seek |-> bs.seek]

\* ---- seek combined with an upgrade, no block or hash (seek_from_head, then upgrade_proof) ----
SeekTrusted0(root, bytes) == IF bytes = 0 THEN root ELSE SeekTrusted(root, bytes)
\* walk the roots of the tree of length n, taking each root's bytes off; inside the first root that is
\* big enough continue as in a trusted tree; beyond the end: the head
RECURSIVE SeekRoots(_, _, _)
SeekRoots(roots, bytes, head) ==
  IF roots = <<>> THEN head
  ELSE LET sz == TrueNode(Head(roots)).size IN
       IF bytes = sz THEN Head(roots)
       ELSE IF bytes > sz THEN SeekRoots(Tail(roots), bytes - sz, head)
       ELSE SeekTrusted0(Head(roots), bytes)
SeekFromHead(n, bytes) == SeekRoots(FullRoots(n), bytes, 2 * n)
\* The upgrade section is what the verifier asks for (oracle mode); the node among them that contains
\* the seek target is not sent: the seek section ends in it and the verifier computes it.
HonestSeekUpProof(rep, bytes, wl) ==
  LET base == HonestProof(rep, -1, -1, wl)
      sr == SeekFromHead(wl, bytes)
      asked == UpAsked(rep, wl)
      tops == {j \in 1..Len(asked) : sr < 2 * wl /\ Contains(asked[j], sr)}
      top == IF tops = {} THEN -1 ELSE asked[CHOOSE j \in tops : TRUE]
      rest == SelectSeq(asked, LAMBDA x : x # top) IN
  [seekroot |-> sr, top |-> top,
   proof |-> [base EXCEPT !.up.nodes = [j \in 1..Len(rest) |-> TrueNode(rest[j])]],
   seek |-> IF top < 0 THEN <<>> ELSE SeekSection(sr, top)]

---------------------------------------------------------------------------
(* Soundness *)
\* what an accepted proof commits is part of the writer's log
SoundResult(rep, res, wl) ==
  /\ res.len \in rep.rl..wl
  /\ \A j \in 1..Len(res.nodes) : res.nodes[j] = TrueNode(res.nodes[j].idx)
  /\ res.blk >= 0 => /\ res.blk < res.len
                     /\ res.val = res.blk + 1 /\ res.bsize = Sizes[res.blk + 1]
=============================================================================
