SPECIFICATION Spec
CONSTANTS PageBits = 2
          NPages = 4
          MaxCalls = 5
          Mut = "none"
VIEW NoHist
INVARIANTS MemExact RecoverExact IndexOfOK Below
CHECK_DEADLOCK FALSE
