------------------------------- MODULE MCSeek -------------------------------
(* C03 with the optional in-range seek: in every replica state reachable by honest replication   *)
(* (now including proofs that carry a seek section), a block or hash request inside the replica's *)
(* tree combined with a seek to any byte of the sub tree it spans is answered by a proof the       *)
(* verifier accepts and that commits only true nodes.                                              *)
EXTENDS MCMerkle

TotalBytes(n) == LET F[k \in 0..n] == IF k = 0 THEN 0 ELSE F[k - 1] + Sizes[k] IN F[n]
\* <<block, hash node, bytes>>: the node lies inside the replica's tree
SeekRequests ==
  {rq \in ((-1..(rep.rl - 1)) \X ({-1} \cup FullNodes(rep.rl)) \X (0..TotalBytes(WLen))) :
     /\ (rq[1] >= 0) # (rq[2] >= 0)
     /\ HonestSeekProof(rep, rq[1], rq[2], rq[3], wl).ok}

SeekResult(rq) ==
  LET hp == HonestSeekProof(rep, rq[1], rq[2], rq[3], wl) IN
  VerifyProofX(rep, hp.proof, 0, FALSE, "none", hp.seek)

FetchSeek(rq) ==
  /\ rq \in SeekRequests
  /\ LET r == SeekResult(rq) IN r.ok /\ rep' = Apply(rep, r)
  /\ hist' = Append(hist, <<"seek", rq[1], rq[2], rq[3]>>)
  /\ UNCHANGED wl

\* seek + upgrade without block or hash: any byte of the writer's log while the replica is behind
SeekUpRequests == IF rep.rl < wl THEN 0..TotalBytes(wl) ELSE {}
SeekUpResult(bytes) ==
  LET hp == HonestSeekUpProof(rep, bytes, wl) IN VerifyProofX(rep, hp.proof, 0, FALSE, "none", hp.seek)
FetchSeekUp(bytes) ==
  /\ bytes \in SeekUpRequests
  /\ LET r == SeekUpResult(bytes) IN r.ok /\ rep' = Apply(rep, r)
  /\ hist' = Append(hist, <<"seek", -1, -1, bytes>>)
  /\ UNCHANGED wl
SeekUpAccepted ==
  \A bytes \in SeekUpRequests :
    LET r == SeekUpResult(bytes) hp == HonestSeekUpProof(rep, bytes, wl) IN
    /\ r.ok /\ SoundResult(rep, r, wl) /\ r.len = wl
    \* the byte lies in the range of the node the seek ended at (or the seek ran off the end)
    /\ hp.seekroot = 2 * wl
       \/ (ByteOffset(hp.seekroot) <= bytes /\ bytes <= ByteOffset(hp.seekroot) + TrueNode(hp.seekroot).size)

\* partial upgrades (additional nodes): the replica asks for any length between its own and the writer's
PartialRequests == {u \in (rep.rl + 1)..(wl - 1) : TRUE}
PartialResult(u) == VerifyProofX(rep, HonestPartialUp(rep, u, wl), 0, FALSE, "none", <<>>)
FetchPartial(u) ==
  /\ u \in PartialRequests
  /\ LET r == PartialResult(u) IN r.ok /\ rep' = Apply(rep, r)
  /\ hist' = Append(hist, <<"partial", u>>)
  /\ UNCHANGED wl
PartialAccepted ==
  \A u \in PartialRequests : LET r == PartialResult(u) IN r.ok /\ SoundResult(rep, r, wl) /\ r.len = wl
\* C04 for the additional nodes: every single-field alteration of them is refused or commits only true content
ExtraAlterations(p) ==
  LET v == p.up.extra IN
  UNION {
    {[p EXCEPT !.up.extra = [v EXCEPT ![j].h = <<"X">>]],
     [p EXCEPT !.up.extra = [v EXCEPT ![j].idx = @ + 1]],
     [p EXCEPT !.up.extra = [v EXCEPT ![j].size = @ + 1]],
     [p EXCEPT !.up.extra = DropAt(v, j)], [p EXCEPT !.up.extra = DupAt(v, j)]}
    \cup (IF j < Len(v) THEN {[p EXCEPT !.up.extra = SwapAt(v, j)]} ELSE {})
    \cup (IF v[j].idx > 0 THEN {[p EXCEPT !.up.extra = [v EXCEPT ![j].idx = @ - 1]]} ELSE {})
    \cup {[p EXCEPT !.up.extra = [v EXCEPT ![j] = TrueNode(i)]] : i \in FullNodes(wl) \ {v[j].idx}}
    : j \in 1..Len(v)}
  \cup {[p EXCEPT !.up.extra = <<>>], [p EXCEPT !.up.extra = Append(v, TrueNode(0))]}
PartialForgeSound ==
  \A u \in PartialRequests :
    \A a \in ExtraAlterations(HonestPartialUp(rep, u, wl)) :
      LET r == VerifyProofX(rep, a, 0, FALSE, "none", <<>>) IN r.ok => SoundResult(rep, r, wl)

PartialLine(u) ==
  LET p == HonestPartialUp(rep, u, wl) IN
  [sizes |-> Sizes, wl |-> wl, hist |-> hist, b |-> -1, h |-> -1, bytes |-> -1, upto |-> u, rl |-> rep.rl,
   block |-> <<>>, seek |-> <<>>,
   up |-> [j \in 1..Len(p.up.nodes) |-> p.up.nodes[j].idx],
   extra |-> [j \in 1..Len(p.up.extra) |-> p.up.extra[j].idx]]

SNext == \/ Next
         \/ (\E u \in 1..WLen : FetchPartial(u))
         \/ (\E rq \in (-1..(WLen - 1)) \X (-1..(2 * WLen)) \X (0..TotalBytes(WLen)) : FetchSeek(rq))
         \/ (\E bytes \in 0..TotalBytes(WLen) : FetchSeekUp(bytes))
SSpec == Init /\ [][SNext]_mvars

SeekAccepted ==
  \A rq \in SeekRequests :
    LET r == SeekResult(rq) IN r.ok /\ SoundResult(rep, r, wl) /\ (rep.rl < wl => r.len = wl)

\* the seek section, when there is one, starts at a node whose byte range begins at or before the
\* requested byte and lies inside the sub tree the block section spans
SeekInside ==
  \A rq \in SeekRequests :
    LET hp == HonestSeekProof(rep, rq[1], rq[2], rq[3], wl) IN
    /\ Contains(hp.sub, hp.seekroot)
    \* the byte lies in the range of the node the seek ended at (at its end when a left child of
    \* exactly the remaining size ended the descent)
    /\ ByteOffset(hp.seekroot) <= rq[3]
    /\ rq[3] <= ByteOffset(hp.seekroot) + TrueNode(hp.seekroot).size


\* bound for the configurations with longer logs: only short histories
ShortHist == Len(hist) <= 3

SeekLine(rq) ==
  LET hp == HonestSeekProof(rep, rq[1], rq[2], rq[3], wl) IN
  [sizes |-> Sizes, wl |-> wl, hist |-> hist, b |-> rq[1], h |-> rq[2], bytes |-> rq[3], rl |-> rep.rl,
   block |-> [j \in 1..Len(NodesOf(hp.proof, IF rq[1] >= 0 THEN "block" ELSE "hash")) |->
                NodesOf(hp.proof, IF rq[1] >= 0 THEN "block" ELSE "hash")[j].idx],
   seek |-> [j \in 1..Len(hp.seek) |-> hp.seek[j].idx],
   up |-> [j \in 1..Len(NodesOf(hp.proof, "up")) |-> NodesOf(hp.proof, "up")[j].idx]]
SeekUpLine(bytes) ==
  LET hp == HonestSeekUpProof(rep, bytes, wl) IN
  [sizes |-> Sizes, wl |-> wl, hist |-> hist, b |-> -1, h |-> -1, bytes |-> bytes, rl |-> rep.rl,
   block |-> <<>>,
   seek |-> [j \in 1..Len(hp.seek) |-> hp.seek[j].idx],
   up |-> [j \in 1..Len(NodesOf(hp.proof, "up")) |-> NodesOf(hp.proof, "up")[j].idx]]
ExportPartial == \A u \in PartialRequests : PrintT(<<"SEEK", ToJson(PartialLine(u))>>)
\* for longer logs: only the requests that get a seek section, and every seek + upgrade request
ExportSeekSel ==
  /\ ExportPartial
  /\ \A rq \in SeekRequests :
       HonestSeekProof(rep, rq[1], rq[2], rq[3], wl).seek # <<>> => PrintT(<<"SEEK", ToJson(SeekLine(rq))>>)
  /\ \A bytes \in SeekUpRequests : PrintT(<<"SEEK", ToJson(SeekUpLine(bytes))>>)
ExportSeek == /\ ExportPartial
              /\ \A rq \in SeekRequests : PrintT(<<"SEEK", ToJson(SeekLine(rq))>>)
              /\ \A bytes \in SeekUpRequests : PrintT(<<"SEEK", ToJson(SeekUpLine(bytes))>>)
=============================================================================
