------------------------------ MODULE MCMerkle ------------------------------
(* Replica states reachable by honest replication while the writer grows; in every state  *)
(* every well-formed request is answered by a proof the verifier accepts (C03) and every   *)
(* single-field alteration of that proof is refused or commits only true content (C04).   *)
EXTENDS Merkle, Json, SequencesExt

CONSTANT Mut
MCSizes3 == <<1, 2, 1>>
MCSizes5 == <<1, 2, 1, 3, 1>>
MCSizes7 == <<1, 2, 1, 3, 1, 2, 2>>
MCSizes9 == <<1, 2, 1, 2, 3, 1, 2, 1, 2>>     \* long enough for a four-leaf sub tree that does not start at byte 0

VARIABLES rep, wl, hist
mvars == <<rep, wl, hist>>
NoHist == <<rep, wl>>     \* VIEW: the history ghost does not distinguish states

Init == /\ rep = [rl |-> 0, have |-> {}, blocks |-> {}]
        /\ wl \in 1..WLen
        /\ hist = <<<<"grow", wl>>>>

\* well-formed requests of C03: a block inside the upgraded tree, the hash of a tree node that
\* does not straddle the replica's current length, or upgrade-only; as <<block, hash node>>
Requests ==
  {<<b, -1>> : b \in {x \in -1..(wl - 1) : x >= 0 \/ rep.rl < wl}}
  \cup {<<-1, h>> : h \in {j \in FullNodes(wl) : RightSpan(j) < 2 * rep.rl \/ LeftSpan(j) >= 2 * rep.rl}}

Fetch(rq) ==
  /\ rq \in Requests
  /\ LET p == HonestProof(rep, rq[1], rq[2], wl)
         r == VerifyProof(rep, p, HonestK(rep, rq[1], rq[2], wl), FALSE, "none") IN
     /\ r.ok
     /\ rep' = Apply(rep, r)
  /\ hist' = Append(hist, <<"fetch", rq[1], rq[2]>>)
  /\ UNCHANGED wl

WriterGrows == /\ wl < WLen /\ wl' \in (wl + 1)..WLen /\ UNCHANGED rep
               /\ hist' = Append(hist, <<"grow", wl'>>)

Next == (\E rq \in (-1..(WLen - 1)) \X (-1..(2 * WLen)) : Fetch(rq)) \/ WriterGrows
Spec == Init /\ [][Next]_mvars

\* C03: every honest proof is accepted, and it commits only true content
HonestAccepted ==
  \A rq \in Requests :
    LET r == VerifyProof(rep, HonestProof(rep, rq[1], rq[2], wl), HonestK(rep, rq[1], rq[2], wl), FALSE, "none") IN
    r.ok /\ SoundResult(rep, r, wl) /\ (rep.rl < wl => r.len = wl)

\* stored nodes are always true nodes and lie inside the verified tree
StoredTrue == \A i \in rep.have : RightSpan(i) < 2 * rep.rl

\* ---- alterations (C04) ----
SetNodes(p, sec, v) == IF sec = "block" THEN [p EXCEPT !.block.nodes = v]
                       ELSE IF sec = "hash" THEN [p EXCEPT !.hash.nodes = v] ELSE [p EXCEPT !.up.nodes = v]
NodesOf(p, sec) == IF sec = "block" THEN (IF IsNone(p.block) THEN <<>> ELSE p.block.nodes)
                   ELSE IF sec = "hash" THEN (IF IsNone(p.hash) THEN <<>> ELSE p.hash.nodes)
                   ELSE (IF IsNone(p.up) THEN <<>> ELSE p.up.nodes)
DropAt(v, j) == SubSeq(v, 1, j - 1) \o SubSeq(v, j + 1, Len(v))
DupAt(v, j) == SubSeq(v, 1, j) \o SubSeq(v, j, Len(v))
SwapAt(v, j) == [k \in 1..Len(v) |-> IF k = j THEN v[j + 1] ELSE IF k = j + 1 THEN v[j] ELSE v[k]]

Alterations(p) ==
  (IF IsNone(p.block) THEN {} ELSE
     {[p EXCEPT !.block.val = 0], [p EXCEPT !.block.size = @ + 1], [p EXCEPT !.block.i = @ + 1],
      [p EXCEPT !.block = None]} \cup
     (IF p.block.i > 0 THEN {[p EXCEPT !.block.i = @ - 1]} ELSE {}))
  \cup
  (IF IsNone(p.hash) THEN {} ELSE
     {[p EXCEPT !.hash.i = @ + 1], [p EXCEPT !.hash = None]} \cup
     (IF p.hash.i > 0 THEN {[p EXCEPT !.hash.i = @ - 1]} ELSE {}) \cup
     \* a forged block section riding on the genuine hash section
     {[p EXCEPT !.block = [i |-> i, val |-> 0, size |-> Sizes[i + 1], nodes |-> <<>>]] : i \in 0..(wl - 1)})
  \cup
  (IF IsNone(p.up) THEN {} ELSE
     {[p EXCEPT !.up.sig = <<"X">>], [p EXCEPT !.up.sig = Sig("other", @[3], @[4], @[5])],
      [p EXCEPT !.up.length = @ + 1], [p EXCEPT !.up.start = @ + 1], [p EXCEPT !.fork = 1]} \cup
     {[p EXCEPT !.up.sig = TrueSig(n)] : n \in (1..WLen) \ {wl}} \cup
     (IF p.up.length > 1 THEN {[p EXCEPT !.up.length = @ - 1]} ELSE {}) \cup
     (IF ~IsNone(p.block) THEN {[p EXCEPT !.up = None]} ELSE {}))
  \cup
  UNION {
    LET v == NodesOf(p, sec) IN
    UNION {
      {SetNodes(p, sec, [v EXCEPT ![j].h = <<"X">>]),
       SetNodes(p, sec, [v EXCEPT ![j].idx = @ + 1]), SetNodes(p, sec, DropAt(v, j)), SetNodes(p, sec, DupAt(v, j))}
      \* The size of the bottom node of a hash section is not authenticated by the scheme (only its hash
      \* is compared or hashed into a parent whose size field is the *sum*): with that alteration included
      \* TLC refutes ForgeSound, which is exactly the exclusion C04 states.  All other sizes are included.
      \cup (IF sec = "hash" /\ j = 1 THEN {} ELSE {SetNodes(p, sec, [v EXCEPT ![j].size = @ + 1])})
      \cup (IF j < Len(v) THEN {SetNodes(p, sec, SwapAt(v, j))} ELSE {})
      \cup (IF v[j].idx > 0 THEN {SetNodes(p, sec, [v EXCEPT ![j].idx = @ - 1])} ELSE {})
      \* a different but well-formed node: another true node put in its place
      \cup {SetNodes(p, sec, [v EXCEPT ![j] = TrueNode(i)]) : i \in FullNodes(wl) \ {v[j].idx}}
      : j \in 1..Len(v)}
    : sec \in {"block", "hash", "up"}}

\* C04: whatever is accepted commits only what the writer signed
ForgeSound ==
  \A rq \in Requests :
    LET p == HonestProof(rep, rq[1], rq[2], wl) k == HonestK(rep, rq[1], rq[2], wl) IN
    \A a \in Alterations(p) :
      LET r == VerifyProof(rep, a, k, FALSE, Mut) IN
      r.ok => SoundResult(rep, r, wl)

\* ---- export for replay through the crate (spec -> implementation) ----
\* a node as [idx, size, tag]: tag = index of the true node whose hash it carries, -1 for garbage
TagOf(h) == IF \E i \in FullNodes(WLen) : TrueNode(i).h = h
            THEN CHOOSE i \in FullNodes(WLen) : TrueNode(i).h = h ELSE -1
NodesJ(v) == [j \in 1..Len(v) |-> <<v[j].idx, v[j].size, TagOf(v[j].h)>>]
SigJ(sg) == IF \E n \in 1..WLen : sg = TrueSig(n) THEN <<"true", CHOOSE n \in 1..WLen : sg = TrueSig(n)>>
            ELSE IF Len(sg) = 5 /\ sg[2] = "other" THEN <<"other", sg[4]>> ELSE <<"bad", 0>>
ProofJ(p) == [fork |-> p.fork,
              hasblock |-> ~IsNone(p.block),
              block |-> IF IsNone(p.block) THEN [i |-> 0, val |-> 0, size |-> 0, nodes |-> <<>>]
                        ELSE [i |-> p.block.i, val |-> p.block.val, size |-> p.block.size, nodes |-> NodesJ(p.block.nodes)],
              hashash |-> ~IsNone(p.hash),
              hash |-> IF IsNone(p.hash) THEN [i |-> 0, nodes |-> <<>>] ELSE [i |-> p.hash.i, nodes |-> NodesJ(p.hash.nodes)],
              hasup |-> ~IsNone(p.up),
              up |-> IF IsNone(p.up) THEN [start |-> 0, length |-> 0, nodes |-> <<>>, sig |-> <<"bad", 0>>]
                     ELSE [start |-> p.up.start, length |-> p.up.length, nodes |-> NodesJ(p.up.nodes), sig |-> SigJ(p.up.sig)]]
ExportLine(rq) ==
  LET b == rq[1] h == rq[2]
      p == HonestProof(rep, b, h, wl) k == HonestK(rep, b, h, wl)
      alts == Alterations(p)
      ord == SetToSeq(alts) IN
  [sizes |-> Sizes, wl |-> wl, hist |-> hist, b |-> b, h |-> h, rl |-> rep.rl,
   missing |-> IF b >= 0 THEN MissingNodes(rep, 2 * b) ELSE IF h >= 0 THEN MissingNodes(rep, h) ELSE 0,
   honest |-> ProofJ(p),
   alts |-> [j \in 1..Len(ord) |-> [p |-> ProofJ(ord[j]), ok |-> VerifyProof(rep, ord[j], k, FALSE, "none").ok]]]
Export == \A rq \in Requests : PrintT(<<"MERKLE", ToJson(ExportLine(rq))>>)
=============================================================================
