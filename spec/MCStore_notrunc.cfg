SPECIFICATION Spec
CONSTANTS MaxLen = 3
          MaxCalls = 3
          MaxCrashes = 2
          MaxTorn = 1
          PageBits = 2
          Cadence = "free"
          Role = "writer"
          TruncOnOpen = FALSE
          Mut = "none"
VIEW NoHist
INVARIANTS TypeOK RecoverOK RecoverContig MemView TreeSound HeaderBitProtocol KeyHygiene
CHECK_DEADLOCK FALSE
