SPECIFICATION Spec
CONSTANTS Sizes <- MCSizes3
          Mut = "none"
VIEW NoHist
INVARIANTS HonestAccepted StoredTrue ForgeSound
CHECK_DEADLOCK FALSE
