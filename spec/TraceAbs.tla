------------------------------ MODULE TraceAbs ------------------------------
(***************************************************************************)
(* Trace validation of recorded executions against HcAbs (DESIGN 3.3).     *)
(*                                                                         *)
(* The trace is a depth-first linearisation of a tree of executions: the   *)
(* main line of a history, and at every storage-operation boundary of      *)
(* every call a side branch "the process died here (optionally tearing     *)
(* the write in flight / the operation failed); this is what reopening     *)
(* shows; this is what happens when one keeps using it".  "push" saves the *)
(* specification state, "pop" restores it, so a side branch is judged      *)
(* against the state the main line had at that point.                      *)
(*                                                                         *)
(* (Events are bound by a quantifier, \E E \in {Rec[l]}, so that E is rigid  *)
(* and priming a check of the new state does not move on to the next line.)*)
(* Every event binds the logged arguments to a HcAbs operation and then    *)
(* requires the logged result, the logged events of every subscriber and   *)
(* the logged projection of the whole core to equal what HcAbs prescribes. *)
(* Unlogged choices (did the interrupted call take effect?) are left to    *)
(* TLC.  Anything HcAbs has no behaviour for (error, panic, hang, a view   *)
(* that is neither before nor after) leaves the event unmatched.           *)
(***************************************************************************)
EXTENDS HcAbs, Json, IOUtils, Layout, StoreOrder

Rec == ndJsonDeserialize(IOEnv.TRACE)

VARIABLES l, stack
tvars == <<truth, cores, l, stack>>

Empty == <<>>

\* C06: what a reader that knows only the JavaScript layout reconstructs from the four stores
\* (records decoded by the harness through the templates of Layout, reader algorithm JsRead in
\* Layout) is the state the API reports; and re-encoding the decoded frames through the templates
\* gives back the stored bytes
IvSet(h) == UNION {h[k][1]..(h[k][2] - 1) : k \in 1..Len(h)}
JsReads(js, v) ==
  LET r == JsRead(js.slots, js.entries, IvSet(js.bf), v.len + 1) IN
  /\ r.ok
  /\ r.len = v.len
  /\ r.held = IvSet(v.held)
  /\ r.contig = v.contig
  /\ r.writable = v.writable
  /\ js.reenc_bad = 0
JsOK(js, v) == JsReads(js, v) /\ js.tree_tail = 0
JsIfLogged(E) == ("js" \in DOMAIN E) => JsOK(E.js, E.view)
\* after a crash the tree store may end in a torn node record (the entry that carries the node is
\* still in the oplog): everything else holds in recovered states as well
JsIfLoggedRecovered(E) == ("js" \in DOMAIN E) => JsReads(E.js, E.view)

EvsOK(c, evs, expected) ==
  /\ Len(evs) = cores[c].subs
  /\ \A s \in 1..Len(evs) : evs[s] = expected

TReset(E) ==
  /\ E.e = "reset"
  /\ truth' = Empty /\ cores' = Empty /\ stack' = <<>>

TCreate(E) ==
  /\ E.e = "create"
  /\ Create(E.c, E.key, E.writable)
  /\ ViewOK(E.c, E.view)'
  /\ UNCHANGED stack

\* The journal of the call, as operation classes, against the envelope HcStore was verified in
\* (StoreOrder).  Internal structure is not a property: a call outside the envelope is printed as
\* DRIFT and the step is still accepted.
Took(E) == CASE E.op.o = "append" -> E.ret.t = "ok" /\ RawCount(E.op.runs) > 0
             [] E.op.o = "clear" -> E.ret.t = "ok" /\ E.op.s < E.op.e
             [] E.op.o = "proof" -> E.ret.t = "ok" /\ E.ret.applied
             [] E.op.o = "mro" -> E.ret.t = "ok" /\ E.ret.changed
             [] OTHER -> TRUE
JournalDrift(E) ==
  ("jc" \in DOMAIN E /\ E.ret.t \in {"ok", "notwritable", "some", "none"} /\ ~CallOrderOK(E.op.o, Took(E), E.jc))
    => PrintT(<<"DRIFT", E.op.o, E.jc>>)

IsDup(E) == E.op.o = "proof" /\ "dup" \in DOMAIN E.op
\* A proof delivered a second time: not a well-formed answer any more (its upgrade does not start at
\* the replica's length), so refusal is fine and changes nothing; acceptance is judged by TOp.
TDupRefused(E) ==
  /\ E.e = "op" /\ IsDup(E)
  /\ ~(E.ret.t = "ok" /\ E.ret.applied)
  /\ E.ret.t \in {"ok", "err"}
  /\ \A s \in 1..Len(E.ev) : E.ev[s] = <<>>
  /\ E.jn = 0
  /\ UNCHANGED <<truth, cores, stack>>
  /\ ViewOK(E.c, E.view)

TOp(E) ==
  /\ E.e = "op" /\ E.op.o \notin {"forged", "rawreq"}
  /\ \E r \in {Outcome(E.c, E.op)} :      \* bound, hence rigid under the prime below
       /\ truth' = r.truth /\ cores' = r.cores
       /\ E.ret = r.ret
       /\ EvsOK(E.c, E.ev, r.ev)'
  /\ ViewOK(E.c, E.view)'
  \* C12: a refused append and a no-op make_read_only touch no store, and once a call has
  \* returned on a sealed core (make_read_only has returned) no store holds any 8-byte window
  \* of the secret key
  /\ JsIfLogged(E)
  /\ JournalDrift(E)
  /\ (E.ret.t = "notwritable" => E.jn = 0)
  /\ (E.op.o = "mro" /\ ~cores[E.c].writable => E.jn = 0)
  /\ (cores[E.c].sealed)' => E.leak = <<>>
  /\ UNCHANGED stack

\* C04: an altered or forged proof is applied to a replica.  Refusing (an error or `false`) must
\* leave every observation unchanged; accepting is tolerated only for alterations the scheme
\* does not have to detect (E.op.must = FALSE) and only if what the replica then believes is
\* still a sub-state of the log its key signed: the new state is read off the logged view and
\* ViewOK pins every field of it (length, byte length, held blocks, block digests) to `truth`.
TForged(E) ==
  /\ E.e = "op" /\ E.op.o = "forged"
  /\ E.ret.t \in {"ok", "err"}           \* C09: never a panic or a hang
  /\ IF E.ret.t = "ok" /\ E.ret.applied
     THEN /\ ~E.op.must
          /\ LET me == cores[E.c] IN
             /\ E.view.len >= me.len /\ E.view.len <= RLen(truth[me.key])
             /\ cores' = [cores EXCEPT ![E.c] = [me EXCEPT !.len = E.view.len, !.held = E.view.held]]
             /\ \A k \in 1..Len(me.held) : \A i \in me.held[k][1]..(me.held[k][2] - 1) : IvHas(E.view.held, i)
          /\ truth' = truth
     ELSE /\ UNCHANGED <<truth, cores>>
          /\ \A s \in 1..Len(E.ev) : E.ev[s] = <<>>
          /\ E.jn = 0
  /\ Len(E.ev) = cores[E.c].subs
  /\ ViewOK(E.c, E.view)'
  /\ UNCHANGED stack

\* C09: any request whatsoever is answered with a proof, no proof, or an error; nothing changes
TRawReq(E) ==
  /\ E.e = "op" /\ E.op.o = "rawreq"
  /\ E.ret.t \in {"proof", "none", "err"}
  /\ UNCHANGED <<truth, cores, stack>>
  /\ E.jn = 0
  /\ ViewOK(E.c, E.view)

\* C03: after replication has completed the replica has the writer's length and every block
\* the writer still holds (contents are pinned to `truth` by ViewOK on both sides)
TSynced(E) ==
  /\ E.e = "synced"
  /\ ViewOK("w", E.w) /\ ViewOK("r", E.r)
  /\ E.r.len = E.w.len /\ E.r.bytes = E.w.bytes
  /\ \A k \in 1..Len(E.w.held) : \A i \in E.w.held[k][1]..(E.w.held[k][2] - 1) : IvHas(E.r.held, i)
  /\ UNCHANGED <<truth, cores, stack>>

\* C06 (converse): storage laid out by the JavaScript rules by someone else (header in either
\* slot, trailing partial entries, complete atomic batches, stale entries) is opened by the crate
\* to the state JsRead prescribes
TForeign(E) ==
  /\ E.e = "foreign"
  /\ E.open.t = "ok"
  /\ JsOK(E.js, E.view)
  /\ E.view.beyond = <<>> /\ E.view.gerr = <<>>
  /\ UNCHANGED <<truth, cores, stack>>

\* C08: many honest block proofs applied to a replica without logging each one: every index of
\* the listed ranges has been fetched (none was refused); the projection afterwards is checked
RECURSIVE AddRanges(_, _)
AddRanges(h, rs) == IF rs = <<>> THEN h ELSE AddRanges(IvAdd(h, rs[1][1], rs[1][2]), Tail(rs))
TBulk(E) ==
  /\ E.e = "bulk"
  /\ E.failed = 0
  /\ \A k \in 1..Len(E.ranges) : E.ranges[k][2] <= cores[E.c].len
  /\ cores' = [cores EXCEPT ![E.c].held = AddRanges(@, E.ranges)]
  /\ UNCHANGED <<truth, stack>>
  /\ ViewOK(E.c, E.view)'

\* C14: the run of the preceding history under another storage backend / node-cache
\* configuration produced, line for line, the same results, events, projections and store
\* digests as the baseline run (which is the one validated above); HcAbs!Outcome is a function
\* of (state, operation), so equal lines are what the specification prescribes for any backend
TConfig(E) ==
  /\ E.e = "config"
  /\ E.diff = <<>>
  /\ UNCHANGED <<truth, cores, stack>>

\* the call E.op was in progress when the process died after E.ks storage operations
\* (E.cut >= 0: and only E.cut bytes of the next write reached the store); reopening gave E.view
TCrashOpen(E) ==
  /\ E.e = "crashopen"
  /\ Interrupted(E.c, E.op)
  /\ E.open.t = "ok"
  /\ ViewOK(E.c, E.view)'
  /\ JsIfLoggedRecovered(E)   \* C06 in recovered states
  /\ UNCHANGED stack

\* storage operation number E.j of the call failed: the call must report an error, and
\* reopening the same storage gives the before- or after-state
TIoErr(E) ==
  /\ E.e = "ioerr"
  /\ E.ret.t = "err"
  /\ \A s \in 1..Len(E.ev) : E.ev[s] = <<>>     \* C13: a failed call emits nothing
  /\ Interrupted(E.c, E.op)
  /\ E.open.t = "ok"
  /\ ViewOK(E.c, E.view)'
  /\ UNCHANGED stack

\* the process died while the storage was being created: either nothing usable is there
\* (reopening reports empty storage) or the new empty core is
TCrashCreate(E) ==
  /\ E.e = "crashcreate"
  /\ \/ /\ E.open.t = "empty"
        /\ UNCHANGED <<truth, cores>>
     \/ /\ E.open.t = "ok"
        /\ Create(E.c, E.key, E.writable)
        /\ ViewOK(E.c, E.view)'
  /\ UNCHANGED stack

TPush(E) ==
  /\ E.e = "push"
  /\ stack' = <<[t |-> truth, c |-> cores]>> \o stack
  /\ UNCHANGED <<truth, cores>>

TPop(E) ==
  /\ E.e = "pop"
  /\ Len(stack) > 0
  /\ truth' = stack[1].t /\ cores' = stack[1].c
  /\ stack' = Tail(stack)

TNext ==
  /\ l <= Len(Rec)
  /\ l' = l + 1
  /\ \E E \in {Rec[l]} :
       \/ TReset(E) \/ TCreate(E) \/ TOp(E) \/ TCrashOpen(E) \/ TIoErr(E)
       \/ TCrashCreate(E) \/ TPush(E) \/ TPop(E)
       \/ TForged(E) \/ TRawReq(E) \/ TSynced(E) \/ TForeign(E) \/ TConfig(E) \/ TBulk(E) \/ TDupRefused(E)

TInit == truth = Empty /\ cores = Empty /\ stack = <<>> /\ l = 1

TSpec == TInit /\ [][TNext]_tvars

\* every line was matched: the longest behaviour consumed the whole trace
Matched == TLCGet("stats").diameter - 1
TraceAccepted ==
  IF Matched >= Len(Rec) THEN TRUE
  ELSE /\ PrintT(<<"UNMATCHED", Matched + 1, ToJson(Rec[Matched + 1])>>)
       /\ FALSE

\* the model's own invariants are evaluated at every step of every trace
TInv == TypeOK
=============================================================================
