------------------------------- MODULE Layout -------------------------------
(***************************************************************************)
(* Bytes as terms (DESIGN 2.5): the Hypercore 10 on-disk layout, the       *)
(* Merkle/signature scheme and the wire messages, stated once, as data.    *)
(*                                                                         *)
(* TLA+ cannot compute BLAKE2b, Ed25519 or CRC32.  What hypercore          *)
(* implements - and what can be wrong in it - is *which bytes go where,    *)
(* in which order, with which widths, under which flag*.  That knowledge   *)
(* lives here as templates: sequences of field encoders over named fields. *)
(* TLC evaluates this module as constant expressions, checks the           *)
(* structural lemmas below (ASSUME) and prints the templates and the tree  *)
(* shapes as JSON (MCLayout); the harness owns only a ~10-primitive        *)
(* interpreter (le32, le64, cuint, bytes, hash = blake2b-256, crc32,       *)
(* ed25519) and compares the bytes it evaluates with the bytes the crate   *)
(* wrote - and feeds bytes it evaluates to the crate's decoders.           *)
(***************************************************************************)
EXTENDS Naturals, Integers, Sequences, FiniteSets, FlatTree

\* ---- field encoders: <<kind, field>> ----
B(n) == <<"b", n>>               \* one literal byte
LE32(f) == <<"le32", f>>         \* 4 bytes little endian
LE64(f) == <<"le64", f>>         \* 8 bytes little endian
CU(f) == <<"cuint", f>>          \* compact-encoding unsigned integer
CB(f) == <<"cbytes", f>>         \* cuint(length) then the bytes
F32(f) == <<"fixed32", f>>       \* exactly 32 raw bytes
RAW(f) == <<"raw", f>>           \* the bytes as they are
ARR(f, t) == <<"array", f, t>>   \* cuint(count) then each element by template t
H(t) == <<"blake2b", t>>         \* BLAKE2b-256 over the concatenation of template t

\* ---- compact-encoding unsigned integers: value classes ----
\* <<upper bound (inclusive, as a string: TLC integers are 32 bit), prefix byte or -1, payload width>>
CUintClasses == << <<"252", -1, 1>>, <<"65535", 253, 2>>, <<"4294967295", 254, 4>>,
                   <<"18446744073709551615", 255, 8>> >>
\* every varint boundary named by C11
CUintBoundaries == <<"0", "1", "252", "253", "254", "255", "65535", "65536", "4294967295",
                     "4294967296", "18446744073709551615">>

\* ---- Merkle scheme (C05) ----
LeafHash == H(<<B(0), LE64("size"), RAW("data")>>)
ParentHash == H(<<B(1), LE64("size"), F32("left"), F32("right")>>)   \* size = sizes of both children
RootEntry == <<F32("hash"), LE64("index"), LE64("size")>>
TreeHash == H(<<B(2), <<"each_root", RootEntry>>>>)
Namespace == H(<<H(<<RAW("hypercore")>>), B(0)>>)                  \* the TREE capability
Signable == <<F32("namespace"), F32("treehash"), LE64("length"), LE64("fork")>>

\* ---- tree store: node i at NodeSize * i ----
NodeSize == 40
NodeRecord == <<LE64("size"), F32("hash")>>

\* ---- bitfield store ----
PageBytes == 4096
PageBitsReal == 32768
WordBytes == 4          \* little-endian u32 words; bit i of the page lives in word i \div 32, bit i % 32
BitByte(i) == i \div 8  \* which makes it byte i \div 8, bit i % 8 of the page
BitMask(i) == Pow2(i % 8)

\* ---- oplog ----
SlotSize == 4096
SlotOffset(s) == (s - 1) * SlotSize    \* slot 1 at 0, slot 2 at 4096
EntriesOffset == 2 * SlotSize
\* leader: crc32 over (lenword || payload), then lenword = len * 4 + partial * 2 + headerbit
Leader == <<<<"crc32le", <<LE32("lenword"), RAW("payload")>>>>, LE32("lenword")>>
LenWord(len, partial, bit) == len * 4 + (IF partial THEN 2 ELSE 0) + bit

HeaderPayload ==
  <<B(1), B(6),                                   \* version, flags (manifest | keyPair)
    F32("key"),
    B(0), B(0), B(1), B(0), F32("namespace_default"), F32("public"),   \* manifest v0: blake2b, 1 signer, ed25519
    CB("public"), <<"secret_or_zero", "secret64">>,                    \* key pair: secret = 32 secret || 32 public
    B(0),                                         \* user data: empty array
    CU("fork"), CU("length"), CB("roothash"), CB("signature"),        \* tree
    B(0), CU("contiguous")>>                      \* hints: no reorgs, contiguous length

\* entry flag bits and section order
FlagUserData == 1
FlagTreeNodes == 2
FlagTreeUpgrade == 4
FlagBitfield == 8
WireNode == <<CU("index"), CU("size"), F32("hash")>>
EntrySections ==
  << <<FlagUserData, <<ARR("userdata", <<CB("item")>>)>>>>,
     <<FlagTreeNodes, <<ARR("nodes", WireNode)>>>>,
     <<FlagTreeUpgrade, <<CU("fork"), CU("ancestors"), CU("length"), CB("signature")>>>>,
     <<FlagBitfield, <<<<"boolbyte", "drop">>, CU("start"), CU("n")>>>> >>

\* ---- wire messages (C11), fields in protocol order ----
Messages ==
  [ node |-> WireNode,
    request_block |-> <<CU("index"), CU("nodes")>>,
    request_seek |-> <<CU("bytes")>>,
    request_upgrade |-> <<CU("start"), CU("length")>>,
    data_block |-> <<CU("index"), CB("value"), ARR("nodes", WireNode)>>,
    data_hash |-> <<CU("index"), ARR("nodes", WireNode)>>,
    data_seek |-> <<CU("bytes"), ARR("nodes", WireNode)>>,
    data_upgrade |-> <<CU("start"), CU("length"), ARR("nodes", WireNode),
                       ARR("additional_nodes", WireNode), CB("signature")>> ]

---------------------------------------------------------------------------
(* The JavaScript reader over decoded records (Appendix A of DESIGN.md).   *)
(* slots: <<s1, s2>> with st in {"ok", "bad"}; entries: the frames decoded  *)
(* from 8192 on, in file order, up to the first undecodable one.           *)

JsValid(s) == s.st = "ok"
JsBits(slots) == IF JsValid(slots[1]) /\ JsValid(slots[2]) THEN <<slots[1].bit, slots[2].bit>>
                 ELSE IF JsValid(slots[1]) THEN <<slots[1].bit, slots[1].bit>>
                 ELSE <<1 - slots[2].bit, slots[2].bit>>
JsHeader(slots) == LET b == JsBits(slots) IN IF b[1] = b[2] THEN slots[1] ELSE slots[2]
JsCurBit(slots) == LET b == JsBits(slots) IN IF b[1] # b[2] THEN 1 ELSE 0

\* entries accepted: the longest prefix carrying the current header bit, minus trailing partials
JsAccepted(slots, entries) ==
  LET bit == JsCurBit(slots)
      n == IF \E k \in 1..Len(entries) : entries[k].bit # bit
           THEN (CHOOSE k \in 1..Len(entries) : entries[k].bit # bit /\ \A j \in 1..(k - 1) : entries[j].bit = bit) - 1
           ELSE Len(entries)
      F[k \in 0..n] == IF k = 0 THEN 0 ELSE IF entries[k].partial THEN F[k - 1] ELSE k
  IN SubSeq(entries, 1, F[n])

\* replay: state is [len, contig, held (set of indices)]
JsContigSet(c, held, s, n, maxi) ==
  IF c <= s + n /\ c >= s
  THEN IF s + n > maxi THEN s + n      \* (total on any logged input)
       ELSE LET F[x \in (s + n)..(maxi + 1)] == IF x \in held /\ x <= maxi THEN F[x + 1] ELSE x IN F[s + n]
  ELSE c
RECURSIVE JsReplay(_, _, _)
JsReplay(st, es, maxi) ==
  IF es = <<>> THEN st
  ELSE LET e == Head(es)
           s1 == IF e.hasbf
                 THEN IF e.bf.drop
                      THEN [st EXCEPT !.held = @ \ (e.bf.start..(e.bf.start + e.bf.n - 1)),
                                      !.contig = IF @ > e.bf.start THEN e.bf.start ELSE @]
                      ELSE LET nh == st.held \cup (e.bf.start..(e.bf.start + e.bf.n - 1)) IN
                           [st EXCEPT !.held = nh, !.contig = JsContigSet(@, nh, e.bf.start, e.bf.n, maxi)]
                 ELSE st
           s2 == IF e.hasup THEN [s1 EXCEPT !.len = e.up.len] ELSE s1
       IN JsReplay(s2, Tail(es), maxi)

\* what a reader that only knows the layout reconstructs: [ok, len, held, contig, writable]
JsRead(slots, entries, bf, maxi) ==
  IF ~JsValid(slots[1]) /\ ~JsValid(slots[2]) THEN [ok |-> FALSE]
  ELSE LET h == JsHeader(slots)
           acc == JsAccepted(slots, entries)
           r == JsReplay([len |-> h.tlen, contig |-> h.contig, held |-> bf], acc, maxi)
       IN [ok |-> TRUE, len |-> r.len, held |-> r.held \cap (0..(r.len - 1)), contig |-> r.contig,
           writable |-> h.sec, accepted |-> Len(acc)]

---------------------------------------------------------------------------
(* Structural lemmas, checked by TLC when the module is loaded *)

\* flag bits are distinct powers of two and the sections are listed in encoding order
ASSUME /\ {EntrySections[k][1] : k \in 1..4} = {1, 2, 4, 8}
       /\ \A k \in 1..3 : EntrySections[k][1] < EntrySections[k + 1][1]
\* the two slots and the entries region do not overlap
ASSUME SlotOffset(1) + SlotSize <= SlotOffset(2) /\ SlotOffset(2) + SlotSize <= EntriesOffset
\* a page holds PageBytes * 8 bits in whole words
ASSUME PageBitsReal = PageBytes * 8 /\ PageBytes % WordBytes = 0
\* the cuint classes are told apart by their first byte: payload-only for < 253, else the prefix
ASSUME \A i, j \in 1..4 : i # j => CUintClasses[i][2] # CUintClasses[j][2]
\* bit i of a little-endian u32 word array is byte i \div 8, bit i % 8
ASSUME \A i \in 0..255 : BitByte(i) = (i \div 32) * 4 + ((i % 32) \div 8)
=============================================================================
