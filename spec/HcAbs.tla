------------------------------- MODULE HcAbs -------------------------------
(***************************************************************************)
(* Property-level model of hypercore (DESIGN 2.2).                         *)
(*                                                                         *)
(* The state is exactly what the properties talk about:                    *)
(*   truth[k]  the log signed by key k, as a sequence of runs              *)
(*             [s, n, size, cid, off]: n blocks starting at index s, each  *)
(*             `size` bytes with content digest `cid`, first byte at `off` *)
(*   cores[c]  one record per core (writer or replica):                    *)
(*             key, len (how much of truth[key] it has verified),          *)
(*             held (normalised list of half-open index intervals),        *)
(*             writable, subs (subscribers of the live instance),          *)
(*             sealed (a make_read_only call has returned, or the core     *)
(*             never had a secret key: no store may hold key material)     *)
(*                                                                         *)
(* A core's content is by construction a prefix of its key's signed log;   *)
(* that is C01's list model and C04's "nothing the writer did not sign".   *)
(* Operations are written as a function Outcome(c, op) from the current    *)
(* state to [truth, cores, ret, ev] so that the same definitions serve the *)
(* bounded model (MCAbs), crash semantics (state' in {before, after}) and  *)
(* trace validation (TraceAbs).                                            *)
(***************************************************************************)
EXTENDS Naturals, Integers, Sequences, FiniteSets, TLC

VARIABLES truth, cores
absvars == <<truth, cores>>

---------------------------------------------------------------------------
(* Interval lists *)

Min2(a, b) == IF a < b THEN a ELSE b
Max2(a, b) == IF a > b THEN a ELSE b

IvOK(h) == /\ \A k \in 1..Len(h) : h[k][1] < h[k][2]
           /\ \A k \in 1..(Len(h) - 1) : h[k][2] < h[k + 1][1]

IvHas(h, i) == \E k \in 1..Len(h) : h[k][1] <= i /\ i < h[k][2]

\* union with [lo, hi)
IvAdd(h, lo, hi) ==
  IF lo >= hi THEN h ELSE
  LET touch == {k \in 1..Len(h) : h[k][2] >= lo /\ h[k][1] <= hi}
      nlo == IF touch = {} THEN lo
             ELSE Min2(lo, h[CHOOSE k \in touch : \A j \in touch : k <= j][1])
      nhi == IF touch = {} THEN hi
             ELSE Max2(hi, h[CHOOSE k \in touch : \A j \in touch : k >= j][2])
      before == SelectSeq(h, LAMBDA iv : iv[2] < lo)
      after == SelectSeq(h, LAMBDA iv : iv[1] > hi)
  IN before \o <<<<nlo, nhi>>>> \o after

\* difference with [lo, hi)
IvSub(h, lo, hi) ==
  IF lo >= hi THEN h ELSE
  LET Pieces(iv) ==
        (IF iv[1] < lo THEN <<<<iv[1], Min2(iv[2], lo)>>>> ELSE <<>>) \o
        (IF iv[2] > hi THEN <<<<Max2(iv[1], hi), iv[2]>>>> ELSE <<>>)
      F[k \in 0..Len(h)] == IF k = 0 THEN <<>> ELSE F[k - 1] \o Pieces(h[k])
  IN F[Len(h)]

\* smallest index not held (C08): end of the interval containing 0, else 0
IvContig(h) == IF Len(h) > 0 /\ h[1][1] = 0 THEN h[1][2] ELSE 0

\* restriction to [0, n)
IvCap(h, n) == IvSub(h, n, n + 2147480000)

IvCount(h) == LET F[k \in 0..Len(h)] == IF k = 0 THEN 0 ELSE F[k - 1] + (h[k][2] - h[k][1])
              IN F[Len(h)]

---------------------------------------------------------------------------
(* Run lists *)

RLen(runs) == IF Len(runs) = 0 THEN 0 ELSE runs[Len(runs)].s + runs[Len(runs)].n
RBytes(runs) == IF Len(runs) = 0 THEN 0
                ELSE runs[Len(runs)].off + runs[Len(runs)].n * runs[Len(runs)].size

\* append raw runs <<n, size, cid>> (as logged) to a run list
RExtend(runs, raw) ==
  LET F[k \in 0..Len(raw)] ==
        IF k = 0 THEN runs
        ELSE LET p == F[k - 1] IN
             Append(p, [s |-> RLen(p), n |-> raw[k][1], size |-> raw[k][2],
                        cid |-> raw[k][3], off |-> RBytes(p)])
  IN F[Len(raw)]

RawCount(raw) == LET F[k \in 0..Len(raw)] == IF k = 0 THEN 0 ELSE F[k - 1] + raw[k][1]
                 IN F[Len(raw)]

RunOf(runs, i) == CHOOSE k \in 1..Len(runs) : runs[k].s <= i /\ i < runs[k].s + runs[k].n

\* byte offset of block i (i may equal the length)
ROff(runs, i) == IF i >= RLen(runs) THEN RBytes(runs)
                 ELSE LET r == runs[RunOf(runs, i)] IN r.off + (i - r.s) * r.size

RSize(runs, i) == runs[RunOf(runs, i)].size
RCid(runs, i) == runs[RunOf(runs, i)].cid

\* the first n blocks of a run list
RPrefix(runs, n) ==
  LET F[k \in 0..Len(runs)] ==
        IF k = 0 THEN <<>>
        ELSE IF runs[k].s >= n THEN F[k - 1]
        ELSE IF runs[k].s + runs[k].n <= n THEN Append(F[k - 1], runs[k])
        ELSE Append(F[k - 1], [runs[k] EXCEPT !.n = n - runs[k].s])
  IN F[Len(runs)]

---------------------------------------------------------------------------
(* Cores *)

NoCore == [key |-> "", len |-> 0, held |-> <<>>, writable |-> FALSE, subs |-> 0, sealed |-> FALSE]

Log(c) == truth[cores[c].key]
CLen(c) == cores[c].len
CBytes(c) == ROff(Log(c), cores[c].len)
CHas(c, i) == i >= 0 /\ i < cores[c].len /\ IvHas(cores[c].held, i)
CContig(c) == IvContig(cores[c].held)

\* What the API must report (C01, C08); compared field by field with the projection
View(c) == [len |-> CLen(c), bytes |-> CBytes(c), contig |-> CContig(c), fork |-> 0,
            writable |-> cores[c].writable, held |-> cores[c].held]

\* The projection logged by the harness (DESIGN 3.1 `proj`) agrees with the state of core c:
\* every field the API reports is pinned to the model (C01, C08, C12)
ViewOK(c, v) ==
  /\ v.len = CLen(c)
  /\ v.bytes = CBytes(c)
  /\ v.contig = CContig(c)
  /\ v.fork = 0
  /\ v.writable = cores[c].writable
  /\ v.held = cores[c].held
  /\ v.beyond = <<>>      \* no index at or beyond the length is reported as held
  /\ v.gerr = <<>>        \* every held block that was read came back
  /\ v.pev = 0            \* reading held blocks emitted no event
  /\ v.key = cores[c].key
  /\ \A j \in 1..Len(v.blk) :
       LET i == v.blk[j][1] IN
       /\ CHas(c, i)
       /\ v.blk[j][2] = RSize(Log(c), i)
       /\ v.blk[j][3] = RCid(Log(c), i)

\* Events (C13), in emission order, as every subscriber must see them
EvUpgrade == <<"upgrade">>
EvHave(s, n) == <<"have", s, n, FALSE>>
EvGet(i, bi) == <<"get", i, bi>>

Res(t, cs, ret, ev) == [truth |-> t, cores |-> cs, ret |-> ret, ev |-> ev]
Same(ret, ev) == Res(truth, cores, ret, ev)

\* ---- the operations; op is a record with field o ----
Outcome(c, op) ==
  LET me == cores[c] IN
  CASE op.o = "append" ->
         IF ~me.writable THEN Same([t |-> "notwritable"], <<>>)
         ELSE LET cnt == RawCount(op.runs)
                  nt == RExtend(RPrefix(Log(c), me.len), op.runs)
                  nl == me.len + cnt IN
              IF cnt = 0
              THEN Same([t |-> "ok", len |-> me.len, bytes |-> CBytes(c)], <<>>)
              ELSE Res([truth EXCEPT ![me.key] = nt],
                       [cores EXCEPT ![c] = [me EXCEPT !.len = nl,
                                                       !.held = IvAdd(me.held, me.len, nl)]],
                       [t |-> "ok", len |-> nl, bytes |-> RBytes(nt)],
                       <<EvUpgrade, EvHave(me.len, cnt)>>)
    [] op.o = "clear" ->
         IF op.s >= op.e THEN Same([t |-> "ok"], <<>>)
         ELSE Res(truth, [cores EXCEPT ![c].held = IvSub(me.held, op.s, op.e)],
                  [t |-> "ok"], <<>>)
    [] op.o = "get" ->
         IF CHas(c, op.i)
         THEN Same([t |-> "some", size |-> RSize(Log(c), op.i), cid |-> RCid(Log(c), op.i)], <<>>)
         ELSE Same([t |-> "none"], <<EvGet(op.i, op.bi)>>)
    \* reads used by the shared-core driver (C15)
    [] op.o = "has" -> Same([t |-> "bool", v |-> CHas(c, op.i)], <<>>)
    [] op.o = "info" -> Same([t |-> "info", len |-> me.len, bytes |-> CBytes(c), contig |-> CContig(c),
                              writable |-> me.writable], <<>>)
    [] op.o = "missing" -> Same([t |-> "n"], <<>>)
    [] op.o = "mro" ->
         IF me.writable
         THEN Res(truth, [cores EXCEPT ![c].writable = FALSE, ![c].sealed = TRUE],
                  [t |-> "ok", changed |-> TRUE], <<>>)
         ELSE Same([t |-> "ok", changed |-> FALSE], <<>>)
    \* C12: open mode together with a key pair is refused before any storage operation
    [] op.o = "openkp" -> Same([t |-> "badarg", ops |-> 0], <<>>)
    [] op.o = "reopen" ->
         Res(truth, [cores EXCEPT ![c].subs = 0], [t |-> "ok"], <<>>)
    [] op.o = "sub" ->
         Res(truth, [cores EXCEPT ![c].subs = me.subs + 1], [t |-> "ok"], <<>>)
    \* C03: answering a peer's request changes nothing; a requested block that is not held
    \* (cleared) yields no proof rather than a wrong one, and the attempt to read it is announced
    [] op.o = "mkproof" ->
         IF op.blk >= 0 /\ ~CHas(c, op.blk)
         THEN Same([t |-> "none"], <<EvGet(op.blk, "")>>)
         ELSE Same([t |-> "proof"], <<>>)
    \* a replica learns that the signed log has (at least) `len` blocks and/or fetches block i
    [] op.o = "proof" ->
         \* an upgrade carries the writer's latest signature (plus the additional nodes up to its
         \* head), so whatever range was asked for the replica ends at the writer's current length
         LET nl == IF op.hasup THEN RLen(Log(c)) ELSE me.len
             ok == /\ nl <= RLen(Log(c))
                   /\ (op.blk >= 0 => op.blk < nl)
             nh == IF op.blk >= 0 THEN IvAdd(me.held, op.blk, op.blk + 1) ELSE me.held IN
         IF ~ok THEN Same([t |-> "refused"], <<>>)
         ELSE Res(truth, [cores EXCEPT ![c] = [me EXCEPT !.len = nl, !.held = nh]],
                  [t |-> "ok", applied |-> TRUE],
                  (IF op.hasup THEN <<EvUpgrade>> ELSE <<>>) \o
                  (IF op.blk >= 0 THEN <<EvHave(op.blk, 1)>> ELSE <<>>))

\* an instance is lost (crash, I/O error, drop): subscribers go with it
Dropped(cs, c) == [cs EXCEPT ![c].subs = 0]

---------------------------------------------------------------------------
(* Actions *)

Create(c, k, w) ==
  /\ cores' = (c :> [key |-> k, len |-> 0, held |-> <<>>, writable |-> w, subs |-> 0,
                     sealed |-> ~w]) @@ cores
  /\ truth' = IF w \/ k \notin DOMAIN truth THEN (k :> <<>>) @@ truth ELSE truth

\* a call that returns normally
Do(c, op) == LET r == Outcome(c, op) IN truth' = r.truth /\ cores' = r.cores

\* a call interrupted by a crash or a storage error (C02, C07, C10): before-or-after, instance lost
Interrupted(c, op) ==
  \/ /\ truth' = truth /\ cores' = Dropped(cores, c)
  \/ LET r == Outcome(c, op) IN
       /\ truth' = r.truth
       \* C12 promises a store free of the secret key only once make_read_only has *returned*:
       \* an interrupted call may have taken effect without having wiped the older header slot
       /\ cores' = [Dropped(r.cores, c) EXCEPT ![c].sealed = cores[c].sealed]

---------------------------------------------------------------------------
(* Invariants of the model itself *)

TypeOK ==
  /\ \A c \in DOMAIN cores :
       /\ IvOK(cores[c].held)
       /\ cores[c].key \in DOMAIN truth
       /\ cores[c].len <= RLen(truth[cores[c].key])
       /\ \A k \in 1..Len(cores[c].held) : cores[c].held[k][2] <= cores[c].len

ContigExact ==
  \A c \in DOMAIN cores :
    LET m == CContig(c) IN
    /\ \A i \in 0..(m - 1) : CHas(c, i)
    /\ ~CHas(c, m)
=============================================================================
