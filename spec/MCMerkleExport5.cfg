SPECIFICATION Spec
CONSTANTS Sizes <- MCSizes5
          Mut = "none"
VIEW NoHist
INVARIANTS Export
CHECK_DEADLOCK FALSE
