SPECIFICATION Spec
CONSTANTS Sizes <- MCSizes5
          Mut = "none"
VIEW NoHist
INVARIANTS HonestAccepted StoredTrue ForgeSound
CHECK_DEADLOCK FALSE
