SPECIFICATION SSpec
CONSTRAINT Track
INVARIANT SInv2
POSTCONDITION SAccepted
CHECK_DEADLOCK FALSE
