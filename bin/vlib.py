import itertools
"""Shared machinery of the checks: build the harness from /repo's working tree, run TLC on model
configurations, record traces with the harness, validate them with TLC run by run, classify
rejections against known_findings.txt, write evidence."""
import json, os, re, shutil, subprocess, sys, time, glob, hashlib
from concurrent.futures import ThreadPoolExecutor

# the checks run from wherever this file lives (normally /verif) against REPO (normally /repo);
# both can be redirected so that a seeded change can be evaluated on copies in the background
VERIF = os.path.dirname(os.path.dirname(os.path.abspath(__file__)))
REPO = os.environ.get("VERIF_REPO", "/repo")
SPEC = f"{VERIF}/spec"
HARNESS = f"{VERIF}/harness"
HCV = f"{HARNESS}/target/release/hcv"
JAR = "/opt/veriftools/tla/tla2tools.jar:/opt/veriftools/tla/CommunityModules-deps.jar"
T0 = time.time()
HCV_ENV = {}


def log(*a):
    print(*a, flush=True)


class ToolError(Exception):
    pass


def sh(cmd, timeout=None, env=None, cwd=None):
    e = dict(os.environ)
    if env:
        e.update(env)
    p = subprocess.run(cmd, shell=isinstance(cmd, str), stdout=subprocess.PIPE,
                       stderr=subprocess.STDOUT, timeout=timeout, env=e, cwd=cwd, text=True,
                       errors="replace")
    return p.returncode, p.stdout


def build_harness():
    """Rebuild the harness against /repo's current working tree (path dependency)."""
    lock = f"{HARNESS}/Cargo.lock"
    if not os.path.exists(lock):
        shutil.copy(f"{REPO}/Cargo.lock", lock)
    toml = open(f"{HARNESS}/Cargo.toml").read()
    want = re.sub(r'hypercore = \{ path = "[^"]*"', f'hypercore = {{ path = "{REPO}"', toml)
    if want != toml:
        open(f"{HARNESS}/Cargo.toml", "w").write(want)
    t = time.time()
    rc, out = sh("cargo build --release --offline 2>&1", cwd=HARNESS, timeout=1500,
                 env={"CARGO_NET_OFFLINE": "true"})
    if rc != 0:
        log(out[-4000:])
        raise ToolError("harness build failed (does /repo still compile?)")
    log(f"[build] harness built in {time.time()-t:.0f}s")


def workdir(pid):
    d = f"{VERIF}/work/{pid}-{os.getpid()}"
    shutil.rmtree(d, ignore_errors=True)
    os.makedirs(d)
    return d


# ---------------------------------------------------------------------------
# TLC model checking of a configuration

def tlc_mc(module, cfg, wd, workers=8, timeout=1500, heap="6g", extra="", simulate=None, coverage=False, env_prefix=""):
    """Run TLC on spec/<module>.tla with spec/<cfg>. Returns dict(states, distinct, ok, out)."""
    meta = f"{wd}/meta-{cfg.replace('/', '_')}"
    mode = f"-simulate num={simulate[0]} -depth {simulate[1]}" if simulate else ""
    cmd = (f"{env_prefix} timeout {timeout} java -Xmx{heap} -Xss64m -XX:+UseParallelGC -cp {JAR} tlc2.TLC -workers {workers} "
           f"-metadir {meta} -cleanup -noGenerateSpecTE {'-coverage 1' if coverage else ''} {mode} {extra} -config {cfg} {module}.tla")
    t = time.time()
    rc, out = sh(cmd, cwd=SPEC, timeout=timeout + 60)
    shutil.rmtree(meta, ignore_errors=True)
    res = {"rc": rc, "out": out, "wall": time.time() - t, "states": 0, "distinct": 0}
    m = re.search(r"(\d+) states generated, (\d+) distinct states found", out)
    if m:
        res["states"] = int(m.group(1))
        res["distinct"] = int(m.group(2))
    m2 = re.search(r"The number of states generated: (\d+)", out)
    if m2 and not m:
        res["states"] = int(m2.group(1))       # simulation mode
    res["violated"] = bool(re.search(r"Invariant .* is violated|Temporal properties were violated|"
                                     r"Action property .* is violated|Deadlock reached", out))
    res["completed"] = ("Model checking completed. No error has been found" in out) or \
                       (simulate is not None and rc in (0, 124) and not res["violated"] and "Error:" not in out)
    # actions never taken (vacuity)
    res["never"] = re.findall(r"<(\w+) line \d+, col \d+ to line \d+, col \d+ of module \w+>: 0:0", out)
    return res


# ---------------------------------------------------------------------------
# Trace files

def split_runs(path):
    """Split an ndjson trace into runs (each starting with a reset event)."""
    runs, cur = [], []
    with open(path) as f:
        for line in f:
            if line.startswith('{"e":"reset"') and cur:
                runs.append(cur)
                cur = []
            cur.append(line)
    if cur:
        runs.append(cur)
    return runs


def tlc_trace(module, trace, wd, timeout=1800, heap="3g"):
    meta = f"{wd}/tmeta-{os.path.basename(trace)}-{time.time_ns()}"
    env = {"TRACE": trace,
           "JAVA_TOOL_OPTIONS": "-Xss1g -Dtlc2.tool.queue.IStateQueue=StateDeque"}
    cmd = (f"timeout {timeout} java -Xmx{heap} -XX:+UseParallelGC -cp {JAR} tlc2.TLC -workers 1 "
           f"-metadir {meta} -cleanup -noGenerateSpecTE -config {module}.cfg {module}.tla")
    rc, out = sh(cmd, cwd=SPEC, env=env, timeout=timeout + 60)
    shutil.rmtree(meta, ignore_errors=True)
    return rc, out


def validate_trace(module, trace, wd, pid, tag, max_rej=12):
    """Validate every run of a trace file. Returns dict(lines, runs, accepted_runs, rejections[...]).
    A rejected run is cut out (saved as a replay file) and the remainder is validated again, so
    one rejection never hides the runs behind it."""
    runs = split_runs(trace)
    res = {"lines": sum(len(r) for r in runs), "runs": len(runs), "accepted": 0, "rejections": [],
           "unjudged": 0, "states": 0}
    pending = list(range(len(runs)))
    rounds = 0
    while pending:
        rounds += 1
        part = f"{trace}.part{rounds}"
        offs = []
        with open(part, "w") as f:
            n = 0
            for ri in pending:
                offs.append((n + 1, ri))
                f.writelines(runs[ri])
                n += len(runs[ri])
        rc, out = tlc_trace(module, part, wd)
        os.unlink(part)
        m = re.search(r"(\d+) states generated", out)
        if m:
            res["states"] += int(m.group(1))
        res.setdefault("drift", []).extend(re.findall(r'^<<"DRIFT", (.*)>>$', out, re.M))
        um = re.search(r'<<"UNMATCHED", (\d+), "(.*)">>', out)
        if "Model checking completed. No error has been found" in out and not um:
            res["accepted"] += len(pending)
            pending = []
            break
        inv = re.search(r"Invariant (\w+) is violated", out)
        evalerr = None
        if not um and not inv:
            # The specification could not even be evaluated on a logged event (a value outside the
            # domain of an operator, a missing field): such an event is not a behaviour of the
            # specification.  The run it belongs to is rejected at the line TLC had reached.
            ls = re.findall(r"^/\\ l = (\d+)", out, re.M)
            if re.search(r"Java heap space|OutOfMemoryError|StackOverflowError|GC overhead", out):
                # resource exhaustion of the checker says nothing about the code
                raise ToolError(f"TLC ran out of memory on {part} ({tag}):\n" + out[-3000:])
            if ls and ("The error occurred when TLC was evaluating" in out or "unexpected exception" in out
                       or "Error: Attempted to" in out or "Error: The" in out):
                evalerr = int(ls[-1])
            else:
                raise ToolError(f"TLC failed on {part} ({tag}):\n" + out[-3000:])
        if um:
            line = int(um.group(1))
            evtxt = um.group(2).encode().decode("unicode_escape", errors="replace")
        elif evalerr is not None:
            line = evalerr
            m2 = re.search(r"Error: (Attempted[^\n]*|The [^\n]*)", out)
            evtxt = "specification not evaluable on this event: " + (m2.group(1) if m2 else "")
        else:
            # an invariant of the model failed at some step of a trace: find the deepest state
            line = len(re.findall(r"^State \d+:", out, re.M))
            evtxt = f"invariant {inv.group(1)}"
        # which run?
        bad = None
        for k, (start, ri) in enumerate(offs):
            end = offs[k + 1][0] if k + 1 < len(offs) else n + 1
            if start <= line < end:
                bad = (k, ri, line - start)
        if bad is None:
            raise ToolError(f"cannot locate unmatched line {line} in {part}")
        k, ri, rel = bad
        res["accepted"] += k  # runs before the rejected one were fully matched
        os.makedirs(f"{VERIF}/replays", exist_ok=True)
        rp = f"{VERIF}/replays/{pid}-{tag}-run{ri}.ndjson"
        with open(rp, "w") as f:
            f.writelines(runs[ri][:rel + 1])
        try:
            ev = json.loads(runs[ri][rel])
        except Exception:
            ev = {"raw": runs[ri][rel][:300]}
        res["rejections"].append({"run": ri, "line_in_run": rel + 1, "event": ev, "replay": rp,
                                  "why": "unmatched" if um else evtxt[:200]})
        pending = [r for (_, r) in offs[k + 1:]]
        if len(res["rejections"]) >= max_rej:
            res["unjudged"] = len(pending)
            break
    return res


# ---------------------------------------------------------------------------
# Known findings

def load_findings():
    out = []
    p = f"{VERIF}/known_findings.txt"
    if os.path.exists(p):
        for line in open(p):
            line = line.strip()
            m = re.match(r"finding: property=(\S+) key=(\S+) (.*)", line)
            if m:
                out.append({"property": m.group(1), "key": m.group(2), "what": m.group(3)})
    return out


def signature(ev):
    """Stable description of a rejected event: what kind of step, what came back."""
    e = ev.get("e", "?")
    op = ev.get("op", {})
    o = op.get("o", "") if isinstance(op, dict) else ""
    parts = [e, o]
    ret = ev.get("ret")
    if isinstance(ret, dict) and ret.get("t") not in (None, "ok", "some", "none"):
        parts.append("ret=" + str(ret.get("t")) + ":" + str(ret.get("kind", "")))
    opn = ev.get("open")
    if isinstance(opn, dict) and opn.get("t") != "ok":
        parts.append("open=" + str(opn.get("t")) + ":" + str(opn.get("kind", "")))
    if "cut" in ev and ev["cut"] is not None and ev["cut"] >= 0:
        parts.append("torn:" + str(ev.get("store", "")))
    return "/".join(p for p in parts if p)


class Verdict:
    def __init__(self, pid):
        self.pid = pid
        self.violations = []
        self.known = []
        self.findings = [f for f in load_findings() if f["property"] == pid]

    def reject(self, sig, replay, detail=""):
        for f in self.findings:
            if re.fullmatch(f["key"], sig):
                if f not in self.known:
                    self.known.append(f)
                    log(f"KNOWN-FINDING: property={self.pid} {f['what']}")
                return
        self.violations.append((sig, replay, detail))
        log(f"VIOLATION property={self.pid} replay={replay}")
        log(f"  what: {sig} {detail}"[:400])


# ---------------------------------------------------------------------------
# Recording + validation in parallel

def record_and_validate(pid, wd, module, jobs, verdict, par=6):
    """jobs: list of (tag, hcv-args). Returns aggregate counters."""
    agg = {"lines": 0, "runs": 0, "accepted": 0, "states": 0, "rejected": 0, "unjudged": 0,
           "counters": {}, "samples": []}

    def one(job):
        tag, args = job
        trace = f"{wd}/{tag}.ndjson"
        rc, out = sh(f"{HCV} {args} --out {trace}", timeout=3000, env=HCV_ENV)
        if rc != 0 or not os.path.exists(trace):
            raise ToolError(f"harness failed ({tag}): rc={rc}\n{out[-2000:]}")
        stats = json.load(open(trace + ".stats.json"))
        r = validate_trace(module, trace, wd, pid, tag)
        with open(trace) as f:
            # (a trace can be as short as one line: a driver that hung before it recorded anything)
            sample = [json.loads(x) for x in itertools.islice(f, 4)]
        os.unlink(trace)
        return tag, stats, r, sample

    with ThreadPoolExecutor(max_workers=par) as ex:
        for tag, stats, r, sample in ex.map(one, jobs):
            for k in ("lines", "runs", "accepted", "states", "unjudged"):
                agg[k] += r[k]
            for k, v in stats.items():
                agg["counters"][k] = agg["counters"].get(k, 0) + v
            agg["rejected"] += len(r["rejections"])
            if len(agg["samples"]) < 3:
                agg["samples"].append({"trace": tag, "first_events": sample[1:4]})
            dr = r.get("drift", [])
            agg["drift"] = agg.get("drift", 0) + len(dr)
            for d in sorted(set(dr))[:3]:
                log(f"DRIFT property={pid} storage operations of a call outside the envelope of spec/StoreOrder.tla: {d[:200]}")
            for rej in r["rejections"]:
                verdict.reject(signature(rej["event"]), rej["replay"],
                               json.dumps(rej["event"])[:300])
            log(f"[{tag}] lines={r['lines']} runs={r['runs']} accepted={r['accepted']} "
                f"rejected={len(r['rejections'])} {stats}")
    return agg


def make_layout(wd, cfg="MCLayout.cfg"):
    """Evaluate spec/Layout.tla with TLC (its ASSUMEs are checked on the way) and export the templates."""
    out = f"{wd}/layout.json"
    rc, o = sh(f"{VERIF}/bin/mklayout {out} {cfg}", timeout=1200)
    if rc != 0:
        raise ToolError("Layout.tla did not evaluate:\n" + o[-2000:])
    HCV_ENV["HCV_LAYOUT"] = out
    log("[tlc] " + o.strip())
    return out


def write_evidence(pid, tier, seed, level, coverage, assumptions, violations):
    # evaluations of seeded changes (bin/seedrun) must never overwrite the evidence of the real tree
    evdir = os.environ.get("VERIF_EVIDENCE_DIR", f"{VERIF}/evidence")
    os.makedirs(evdir, exist_ok=True)
    ev = {"property_id": pid, "tier": tier, "seed": seed, "level": level, "coverage": coverage,
          "assumptions": assumptions, "wall_s": round(time.time() - T0, 1), "violations": violations}
    with open(f"{evdir}/{pid}.json", "w") as f:
        json.dump(ev, f, indent=1)


def finish(verdict, wd):
    shutil.rmtree(wd, ignore_errors=True)
    if verdict.violations:
        sys.exit(1)
    sys.exit(0)
