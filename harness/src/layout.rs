//! Interpreter for the byte-layout templates exported from spec/Layout.tla (DESIGN 2.5).
//! The templates say which bytes go where; this file only knows the primitives
//! (little-endian integers, compact-encoding integers, BLAKE2b-256, CRC32) and how to walk a
//! template forwards (encode) and backwards (decode).
use blake2::digest::consts::U32;
use blake2::{Blake2b, Digest};
use serde_json::Value;
use std::collections::BTreeMap;

#[derive(Clone, Debug, PartialEq)]
pub enum Val {
    U(u64),
    B(Vec<u8>),
    L(Vec<Fields>),
    Bool(bool),
}
pub type Fields = BTreeMap<String, Val>;

pub fn fu(f: &Fields, k: &str) -> u64 {
    match f.get(k) {
        Some(Val::U(x)) => *x,
        _ => panic!("field {k} missing or not an integer"),
    }
}
pub fn fb<'a>(f: &'a Fields, k: &str) -> &'a [u8] {
    match f.get(k) {
        Some(Val::B(x)) => x,
        _ => panic!("field {k} missing or not bytes"),
    }
}

pub struct Layout {
    pub j: Value,
}

pub fn blake2b(data: &[u8]) -> Vec<u8> {
    let mut h = Blake2b::<U32>::new();
    h.update(data);
    h.finalize().to_vec()
}

impl Layout {
    pub fn load(path: &str) -> Layout {
        let text = std::fs::read_to_string(path).expect("layout.json (exported by TLC from spec/Layout.tla)");
        Layout { j: serde_json::from_str(&text).unwrap() }
    }
    pub fn t(&self, name: &str) -> &Value {
        &self.j["layout"][name]
    }
    pub fn num(&self, name: &str) -> u64 {
        self.j["layout"][name].as_u64().unwrap()
    }
    pub fn shape(&self, n: u64) -> Option<&Value> {
        self.j["shapes"].as_array().unwrap().iter().find(|s| s["n"].as_u64() == Some(n))
    }

    pub fn cuint(&self, v: u64, out: &mut Vec<u8>) {
        for c in self.t("cuint_classes").as_array().unwrap() {
            let bound: u128 = c[0].as_str().unwrap().parse().unwrap();
            if (v as u128) <= bound {
                let prefix = c[1].as_i64().unwrap();
                let width = c[2].as_u64().unwrap() as usize;
                if prefix >= 0 {
                    out.push(prefix as u8);
                }
                out.extend_from_slice(&v.to_le_bytes()[..width]);
                return;
            }
        }
        panic!("no cuint class for {v}");
    }

    pub fn cuint_dec<'a>(&self, inp: &'a [u8]) -> Option<(u64, &'a [u8])> {
        let first = *inp.first()?;
        for c in self.t("cuint_classes").as_array().unwrap() {
            let prefix = c[1].as_i64().unwrap();
            let width = c[2].as_u64().unwrap() as usize;
            if prefix < 0 {
                // payload-only class: applies when the first byte is no other class's prefix
                let is_prefix = self.t("cuint_classes").as_array().unwrap().iter().any(|d| d[1].as_i64() == Some(first as i64));
                if !is_prefix {
                    return Some((first as u64, &inp[1..]));
                }
            } else if prefix as u8 == first {
                if inp.len() < 1 + width {
                    return None;
                }
                let mut b = [0u8; 8];
                b[..width].copy_from_slice(&inp[1..1 + width]);
                return Some((u64::from_le_bytes(b), &inp[1 + width..]));
            }
        }
        None
    }

    /// Encode a template (a JSON array of field encoders) over the given fields.
    pub fn enc(&self, tpl: &Value, f: &Fields, out: &mut Vec<u8>) {
        // a single encoder (["kind", ...]) or a sequence of encoders
        if tpl.get(0).map(|x| x.is_string()).unwrap_or(false) {
            self.enc1(tpl, f, out);
            return;
        }
        for e in tpl.as_array().unwrap() {
            self.enc1(e, f, out);
        }
    }

    fn enc1(&self, e: &Value, f: &Fields, out: &mut Vec<u8>) {
        let kind = e[0].as_str().unwrap();
        match kind {
            "b" => out.push(e[1].as_u64().unwrap() as u8),
            "le32" => out.extend_from_slice(&(fu(f, e[1].as_str().unwrap()) as u32).to_le_bytes()),
            "le64" => out.extend_from_slice(&fu(f, e[1].as_str().unwrap()).to_le_bytes()),
            "cuint" => self.cuint(fu(f, e[1].as_str().unwrap()), out),
            "cbytes" => {
                let b = fb(f, e[1].as_str().unwrap());
                self.cuint(b.len() as u64, out);
                out.extend_from_slice(b);
            }
            "fixed32" => {
                let b = fb(f, e[1].as_str().unwrap());
                assert_eq!(b.len(), 32, "fixed32 field {}", e[1]);
                out.extend_from_slice(b);
            }
            "raw" => {
                let name = e[1].as_str().unwrap();
                match f.get(name) {
                    Some(Val::B(b)) => out.extend_from_slice(b),
                    // a literal (e.g. "hypercore") when no field of that name is bound
                    _ => out.extend_from_slice(name.as_bytes()),
                }
            }
            "array" => {
                let items = match f.get(e[1].as_str().unwrap()) {
                    Some(Val::L(v)) => v.clone(),
                    _ => vec![],
                };
                self.cuint(items.len() as u64, out);
                for it in &items {
                    self.enc(&e[2], it, out);
                }
            }
            "each_root" => {
                if let Some(Val::L(v)) = f.get("roots") {
                    for it in v {
                        self.enc(&e[1], it, out);
                    }
                }
            }
            "blake2b" => {
                let mut inner = vec![];
                self.enc(&e[1], f, &mut inner);
                out.extend_from_slice(&blake2b(&inner));
            }
            "crc32le" => {
                let mut inner = vec![];
                self.enc(&e[1], f, &mut inner);
                out.extend_from_slice(&crc32fast::hash(&inner).to_le_bytes());
            }
            "boolbyte" => out.push(matches!(f.get(e[1].as_str().unwrap()), Some(Val::Bool(true))) as u8),
            "secret_or_zero" => match f.get(e[1].as_str().unwrap()) {
                Some(Val::B(b)) if !b.is_empty() => {
                    self.cuint(b.len() as u64, out);
                    out.extend_from_slice(b);
                }
                _ => out.push(0),
            },
            k => panic!("unknown encoder {k}"),
        }
    }

    /// Decode a template; returns the fields and the rest, or None if the input does not fit.
    pub fn dec<'a>(&self, tpl: &Value, mut inp: &'a [u8], f: &mut Fields) -> Option<&'a [u8]> {
        if tpl.get(0).map(|x| x.is_string()).unwrap_or(false) {
            return self.dec1(tpl, inp, f);
        }
        for e in tpl.as_array().unwrap() {
            inp = self.dec1(e, inp, f)?;
        }
        Some(inp)
    }

    fn dec1<'a>(&self, e: &Value, inp: &'a [u8], f: &mut Fields) -> Option<&'a [u8]> {
        let kind = e[0].as_str().unwrap();
        let name = || e[1].as_str().unwrap().to_string();
        match kind {
            "b" => {
                // literal bytes are recorded, not enforced (a reader skips version/flags bytes)
                if inp.is_empty() {
                    return None;
                }
                Some(&inp[1..])
            }
            "le32" => {
                if inp.len() < 4 {
                    return None;
                }
                f.insert(name(), Val::U(u32::from_le_bytes(inp[..4].try_into().unwrap()) as u64));
                Some(&inp[4..])
            }
            "le64" => {
                if inp.len() < 8 {
                    return None;
                }
                f.insert(name(), Val::U(u64::from_le_bytes(inp[..8].try_into().unwrap())));
                Some(&inp[8..])
            }
            "cuint" => {
                let (v, rest) = self.cuint_dec(inp)?;
                f.insert(name(), Val::U(v));
                Some(rest)
            }
            "cbytes" | "secret_or_zero" => {
                let (n, rest) = self.cuint_dec(inp)?;
                if (rest.len() as u64) < n {
                    return None;
                }
                f.insert(name(), Val::B(rest[..n as usize].to_vec()));
                Some(&rest[n as usize..])
            }
            "fixed32" => {
                if inp.len() < 32 {
                    return None;
                }
                f.insert(name(), Val::B(inp[..32].to_vec()));
                Some(&inp[32..])
            }
            "array" => {
                let (n, mut rest) = self.cuint_dec(inp)?;
                if n > 1_000_000 {
                    return None;
                }
                let mut items = vec![];
                for _ in 0..n {
                    let mut it = Fields::new();
                    rest = self.dec(&e[2], rest, &mut it)?;
                    items.push(it);
                }
                f.insert(name(), Val::L(items));
                Some(rest)
            }
            "boolbyte" => {
                if inp.is_empty() {
                    return None;
                }
                f.insert(name(), Val::Bool(inp[0] & 1 == 1));
                Some(&inp[1..])
            }
            k => panic!("encoder {k} cannot be decoded"),
        }
    }

    // ---- oplog frames ----

    /// Frame a payload: leader (crc32, lenword) + payload.
    pub fn frame(&self, payload: &[u8], partial: bool, bit: u64) -> Vec<u8> {
        let mut f = Fields::new();
        let lenword = (payload.len() as u64) * 4 + if partial { 2 } else { 0 } + bit;
        f.insert("lenword".into(), Val::U(lenword));
        f.insert("payload".into(), Val::B(payload.to_vec()));
        let mut out = vec![];
        self.enc(self.t("leader"), &f, &mut out);
        out.extend_from_slice(payload);
        out
    }

    /// Decode a frame at the start of `inp`: (payload, partial, bit, total length) or None when
    /// fewer than 8 bytes remain, the length exceeds what is left, is zero, or the CRC differs.
    pub fn unframe<'a>(&self, inp: &'a [u8]) -> Option<(&'a [u8], bool, u64, usize)> {
        if inp.len() < 8 {
            return None;
        }
        let crc = u32::from_le_bytes(inp[..4].try_into().unwrap());
        let lenword = u32::from_le_bytes(inp[4..8].try_into().unwrap());
        let len = (lenword >> 2) as usize;
        if len == 0 || inp.len() < 8 + len {
            return None;
        }
        if crc32fast::hash(&inp[4..8 + len]) != crc {
            return None;
        }
        Some((&inp[8..8 + len], lenword & 2 == 2, (lenword & 1) as u64, 8 + len))
    }

    pub fn entry_enc(&self, e: &Fields) -> Vec<u8> {
        let mut flags = 0u8;
        let mut body = vec![];
        for sec in self.t("entry_sections").as_array().unwrap() {
            let flag = sec[0].as_u64().unwrap() as u8;
            let present = match flag {
                1 => matches!(e.get("userdata"), Some(Val::L(v)) if !v.is_empty()),
                2 => matches!(e.get("nodes"), Some(Val::L(v)) if !v.is_empty()),
                4 => e.contains_key("ancestors"),
                8 => e.contains_key("start"),
                _ => false,
            };
            if present {
                flags |= flag;
                self.enc(&sec[1], e, &mut body);
            }
        }
        let mut out = vec![flags];
        out.extend_from_slice(&body);
        out
    }

    pub fn entry_dec(&self, payload: &[u8]) -> Option<(Fields, u8)> {
        let flags = *payload.first()?;
        let mut rest = &payload[1..];
        let mut f = Fields::new();
        for sec in self.t("entry_sections").as_array().unwrap() {
            let flag = sec[0].as_u64().unwrap() as u8;
            if flags & flag != 0 {
                rest = self.dec(&sec[1], rest, &mut f)?;
            }
        }
        Some((f, flags))
    }
}
