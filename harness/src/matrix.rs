//! C14: the same histories under every storage backend and node-cache configuration; the
//! recorded lines (results, events, projections, store digests at every operation boundary) must
//! be identical to the baseline run on the instrumented backend without cache, whose trace is
//! the one validated by TLC.
use crate::abs::*;
use crate::core::*;
use crate::rec::Rec;
use crate::repl::*;
use rand::rngs::StdRng;
use rand::SeedableRng;
use serde_json::{json, Value};

fn strip(line: &str) -> String {
    let mut v: Value = serde_json::from_str(line).unwrap();
    if let Some(o) = v.as_object_mut() {
        // journal-derived fields exist only on the instrumented backend
        for k in ["jn", "jc", "leak", "js", "gen"] {
            o.remove(k);
        }
    }
    serde_json::to_string(&v).unwrap()
}

fn capture(backend: u8, cache: u8, dir: &std::path::Path, scenario: &dyn Fn(Rec)) -> Vec<String> {
    let _ = std::fs::remove_dir_all(dir);
    std::fs::create_dir_all(dir).unwrap();
    CFG.with(|c| {
        let mut c = c.borrow_mut();
        c.backend = backend;
        c.cache = cache;
        c.dir = dir.to_path_buf();
        c.counter = 0;
    });
    let rec = Rec::plain("/dev/null");
    scenario(rec.clone());
    let lines = rec.0.lock().unwrap().lines.clone();
    lines
}

pub fn run(args: &[String]) {
    let get = |name: &str, d: &str| args.iter().position(|a| a == name).and_then(|i| args.get(i + 1).cloned()).unwrap_or_else(|| d.to_string());
    let seed: u64 = get("--seed", "1").parse().unwrap();
    let runs: usize = get("--runs", "4").parse().unwrap();
    let ops: usize = get("--ops", "14").parse().unwrap();
    let out = get("--out", "matrix.ndjson");
    let only: Option<usize> = args.iter().position(|a| a == "--only").and_then(|i| args.get(i + 1).and_then(|v| v.parse().ok()));
    let work = std::path::PathBuf::from(get("--dir", "/verif/work/matrix-dir"));
    let _ = std::fs::remove_dir_all(&work);
    std::fs::create_dir_all(&work).unwrap();
    let rt = tokio::runtime::Builder::new_multi_thread().worker_threads(1).enable_all().build().unwrap();
    let _guard = rt.enter();
    let main = Rec::new(&out, 120);
    let configs: Vec<(&str, u8, u8)> = vec![
        ("vstore/cache", 0, 1), ("vstore/tiny", 0, 2),
        ("memory/none", 1, 0), ("memory/cache", 1, 1), ("memory/tiny", 1, 2),
        ("disk/none", 2, 0), ("disk/tiny", 2, 2), ("disk-overwrite/cache", 3, 1),
    ];
    for r in 0..runs {
        if only.is_some() && only != Some(r) {
            continue;
        }
        let rs = seed.wrapping_mul(1_000_003).wrapping_add(r as u64);
        let kind = r % 4;
        let gen = json!({"drv":"abs","args":format!("matrix --seed {seed} --runs {runs} --ops {ops} --only {r}")});
        let scenario = |rec: Rec| {
            if kind == 2 {
                // a longer history whose tree-node traffic exceeds a small cache many times over:
                // ~100 appends, then every block read and every other one cleared in scattered order
                let n = 64 + (rs % 64);
                let step = [37u64, 41, 29][(rs % 3) as usize];
                let mut h: Vec<Op> = (0..n).map(|i| Op::Append(format!("block #{i} {}", "x".repeat((i % 7) as usize)).into_bytes())).collect();
                for i in 0..n {
                    let idx = (i * step + 5) % n;
                    h.push(Op::Get(idx));
                    if idx % 2 == 1 {
                        h.push(Op::Clear(idx, idx + 1));
                    }
                }
                let mut d = Driver { rec, rng: StdRng::seed_from_u64(rs ^ 1), suffix_salt: rs, cid: "w".into() };
                d.history(&h, 0, &FaultCfg::none(), gen.clone());
            } else if kind == 3 {
                // replication with altered proofs in between: what a replica refuses must leave no
                // trace in the node cache either (the honest requests that follow are built from
                // the replica's own missing_nodes and must be answered and accepted alike)
                let mut rd = ReplDriver {
                    d: Driver { rec, rng: StdRng::seed_from_u64(rs ^ 0x5eed), suffix_salt: rs, cid: "r".into() },
                    rng: StdRng::seed_from_u64(rs),
                };
                let g = ReplCfg { rounds: 2, writer_ops: 4, requests: 5, max_block: 24, max_batch: 4, p_clear: 0.0, p_reopen: 0.1, subs: 1 };
                rd.honest_run(gen.clone(), &g, &FaultCfg::none(), true);
            } else if kind == 0 {
                let mut rng = StdRng::seed_from_u64(rs);
                let g = profile(if r % 4 == 0 { "small" } else { "long" }, ops);
                let h = {
                    // histories are generated on the instrumented backend
                    let saved = CFG.with(|c| c.borrow().clone());
                    CFG.with(|c| c.borrow_mut().backend = 0);
                    let h = gen_history(&mut rng, &g);
                    CFG.with(|c| *c.borrow_mut() = saved);
                    h
                };
                let mut d = Driver { rec, rng: StdRng::seed_from_u64(rs ^ 1), suffix_salt: rs, cid: "w".into() };
                d.history(&h, 1, &FaultCfg::none(), gen.clone());
            } else {
                let mut rd = ReplDriver {
                    d: Driver { rec, rng: StdRng::seed_from_u64(rs ^ 0x5eed), suffix_salt: rs, cid: "r".into() },
                    rng: StdRng::seed_from_u64(rs),
                };
                let g = ReplCfg { rounds: 3, writer_ops: 4, requests: 8, max_block: 40, max_batch: 4, p_clear: 0.12, p_reopen: 0.25, subs: 1 };
                rd.honest_run(gen.clone(), &g, &FaultCfg::none(), false);
            }
        };
        // the stress history is about the cache only: instrumented and memory backends, all cache sizes
        let stress: Vec<(&str, u8, u8)> = vec![
            ("vstore/cache", 0, 1), ("vstore/3-nodes", 0, 2), ("vstore/1-node", 0, 3), ("vstore/13-nodes", 0, 4),
            ("memory/1-node", 1, 3), ("memory/13-nodes", 1, 4),
        ];
        let forged: Vec<(&str, u8, u8)> = vec![
            // (the roll-back after a harmlessly accepted alteration restores the replica from store
            // images, which only the instrumented backend can do)
            ("vstore/cache", 0, 1), ("vstore/3-nodes", 0, 2), ("vstore/1-node", 0, 3), ("vstore/13-nodes", 0, 4),
        ];
        let configs: &Vec<(&str, u8, u8)> = if kind == 2 { &stress } else if kind == 3 { &forged } else { &configs };
        let base = capture(0, 0, &work, &scenario);
        for l in &base {
            main.emit(serde_json::from_str(l).unwrap());
        }
        main.count("histories", 1);
        let sb: Vec<String> = base.iter().map(|l| strip(l)).collect();
        for (name, backend, cache) in configs.iter() {
            let lines = capture(*backend, *cache, &work, &scenario);
            let sl: Vec<String> = lines.iter().map(|l| strip(l)).collect();
            let mut diff: Vec<Value> = vec![];
            if sl.len() != sb.len() {
                diff.push(json!({"lines": sl.len(), "baseline_lines": sb.len()}));
            }
            for (i, (a, b)) in sl.iter().zip(sb.iter()).enumerate() {
                if a != b {
                    let mut x = a.clone();
                    x.truncate(700);
                    let mut y = b.clone();
                    y.truncate(700);
                    diff.push(json!({"line": i + 1, "config": x, "baseline": y}));
                    break;
                }
            }
            main.count("configurations", 1);
            main.emit(json!({"e":"config","cfg":name,"lines":sl.len(),"diff":diff}));
        }
        let _ = std::fs::remove_dir_all(&work);
        std::fs::create_dir_all(&work).unwrap();
    }
    let _ = std::fs::remove_dir_all(&work);
    main.finish();
}
