//! Instrumented in-memory `RandomAccess` backend.
//!
//! Knows nothing about hypercore: it is four byte vectors with the semantics of
//! `RandomAccessMemory` (write zero-extends, read past the end is out of bounds, `del` zero-fills
//! or truncates when it reaches the end, `truncate` shrinks or zero-extends), a journal of every
//! mutating operation, a counter of all operations, single-shot error injection and an optional
//! "yield once per operation" mode for the cooperative scheduler.
use async_trait::async_trait;
use hypercore::{Storage, StorageTraits, Store};
use random_access_storage::{RandomAccess, RandomAccessError};
use std::future::Future;
use std::pin::Pin;
use std::sync::{Arc, Mutex};
use std::task::{Context, Poll};

pub const STORES: [&str; 4] = ["tree", "data", "bitfield", "oplog"];

pub fn store_id(s: &Store) -> usize {
    match s {
        Store::Tree => 0,
        Store::Data => 1,
        Store::Bitfield => 2,
        Store::Oplog => 3,
    }
}

#[derive(Clone, Debug, PartialEq)]
pub enum JKind {
    Write { off: u64, data: Vec<u8> },
    Del { off: u64, len: u64 },
    Trunc { len: u64 },
}

#[derive(Clone, Debug)]
pub struct JOp {
    /// index among *all* operations (reads included) since the disk was created / counters reset
    pub seq: u64,
    pub store: usize,
    pub kind: JKind,
}

pub type Images = [Vec<u8>; 4];

#[derive(Debug, Default)]
pub struct DiskState {
    pub img: Images,
    pub journal: Vec<JOp>,
    /// number of operations of any kind issued so far
    pub ops: u64,
    /// fail the operation with this sequence number (once)
    pub fail_at: Option<u64>,
    pub failed: bool,
    /// when set, every operation returns Pending once before it runs
    pub yield_each: bool,
    /// log of all operations as short strings (only when `log_all`)
    pub log_all: bool,
    pub all: Vec<String>,
}

#[derive(Clone, Debug, Default)]
pub struct VDisk(pub Arc<Mutex<DiskState>>);

impl VDisk {
    pub fn new() -> Self {
        Self::default()
    }
    pub fn from_images(img: Images) -> Self {
        let d = DiskState {
            img,
            ..Default::default()
        };
        VDisk(Arc::new(Mutex::new(d)))
    }
    pub fn images(&self) -> Images {
        self.0.lock().unwrap().img.clone()
    }
    pub fn journal_len(&self) -> usize {
        self.0.lock().unwrap().journal.len()
    }
    pub fn journal_from(&self, from: usize) -> Vec<JOp> {
        self.0.lock().unwrap().journal[from..].to_vec()
    }
    pub fn ops(&self) -> u64 {
        self.0.lock().unwrap().ops
    }
    pub fn arm_failure(&self, at: u64) {
        let mut d = self.0.lock().unwrap();
        d.fail_at = Some(at);
        d.failed = false;
    }
    pub fn disarm(&self) -> bool {
        let mut d = self.0.lock().unwrap();
        d.fail_at = None;
        d.failed
    }
    pub fn set_yield(&self, y: bool) {
        self.0.lock().unwrap().yield_each = y;
    }
    /// A hypercore `Storage` over this disk (no storage operation is issued by opening).
    pub async fn storage(&self) -> Storage {
        let disk = self.clone();
        Storage::open(
            move |store: Store| {
                let disk = disk.clone();
                Box::pin(async move {
                    Ok(Box::new(VStore {
                        disk,
                        store: store_id(&store),
                    }) as Box<dyn StorageTraits + Send>)
                })
                    as Pin<
                        Box<
                            dyn Future<
                                    Output = Result<
                                        Box<dyn StorageTraits + Send>,
                                        RandomAccessError,
                                    >,
                                > + Send,
                        >,
                    >
            },
            false,
        )
        .await
        .expect("opening a vstore storage issues no operation")
    }
}

/// Apply one journal operation to a set of images (used for prefix rebuilds).
pub fn apply(img: &mut Images, op: &JOp) {
    apply_kind(&mut img[op.store], &op.kind)
}

pub fn apply_kind(v: &mut Vec<u8>, kind: &JKind) {
    match kind {
        JKind::Write { off, data } => {
            let off = *off as usize;
            let end = off + data.len();
            if end > v.len() {
                v.resize(end, 0);
            }
            v[off..end].copy_from_slice(data);
        }
        JKind::Del { off, len } => {
            let off = *off as usize;
            let len = *len as usize;
            if len == 0 {
                return;
            }
            if off + len >= v.len() {
                v.truncate(off);
            } else {
                for b in &mut v[off..off + len] {
                    *b = 0;
                }
            }
        }
        JKind::Trunc { len } => {
            v.resize(*len as usize, 0);
        }
    }
}

/// Apply a write cut to its first `cut` bytes (a torn write).
pub fn apply_torn(img: &mut Images, op: &JOp, cut: usize) {
    if let JKind::Write { off, data } = &op.kind {
        let k = JKind::Write {
            off: *off,
            data: data[..cut].to_vec(),
        };
        apply_kind(&mut img[op.store], &k);
    } else {
        panic!("torn cut of a non-write");
    }
}

#[derive(Debug)]
pub struct VStore {
    disk: VDisk,
    store: usize,
}

/// Future that is pending exactly once when the disk is in yield mode.
struct YieldOnce {
    armed: bool,
}
impl Future for YieldOnce {
    type Output = ();
    fn poll(mut self: Pin<&mut Self>, cx: &mut Context<'_>) -> Poll<()> {
        if self.armed {
            self.armed = false;
            cx.waker().wake_by_ref();
            Poll::Pending
        } else {
            Poll::Ready(())
        }
    }
}

fn io_err() -> RandomAccessError {
    RandomAccessError::IO {
        return_code: None,
        context: Some("injected".into()),
        source: std::io::Error::new(std::io::ErrorKind::Other, "injected fault"),
    }
}

impl VStore {
    async fn enter(&self, what: &str, a: u64, b: u64) -> Result<(), RandomAccessError> {
        let y = self.disk.0.lock().unwrap().yield_each;
        if y {
            YieldOnce { armed: true }.await;
        }
        let mut d = self.disk.0.lock().unwrap();
        let seq = d.ops;
        d.ops += 1;
        if d.log_all {
            let s = format!("{} {} {} {}", STORES[self.store], what, a, b);
            d.all.push(s);
        }
        if d.fail_at == Some(seq) && !d.failed {
            d.failed = true;
            return Err(io_err());
        }
        Ok(())
    }
    fn record(&self, kind: JKind) {
        let mut d = self.disk.0.lock().unwrap();
        let seq = d.ops - 1;
        let store = self.store;
        apply_kind(&mut d.img[store], &kind);
        d.journal.push(JOp { seq, store, kind });
    }
}

#[async_trait]
impl RandomAccess for VStore {
    async fn write(&mut self, offset: u64, data: &[u8]) -> Result<(), RandomAccessError> {
        self.enter("w", offset, data.len() as u64).await?;
        self.record(JKind::Write {
            off: offset,
            data: data.to_vec(),
        });
        Ok(())
    }

    async fn read(&mut self, offset: u64, length: u64) -> Result<Vec<u8>, RandomAccessError> {
        self.enter("r", offset, length).await?;
        let d = self.disk.0.lock().unwrap();
        let v = &d.img[self.store];
        if offset + length > v.len() as u64 {
            return Err(RandomAccessError::OutOfBounds {
                offset,
                end: Some(offset + length),
                length: v.len() as u64,
            });
        }
        Ok(v[offset as usize..(offset + length) as usize].to_vec())
    }

    async fn del(&mut self, offset: u64, length: u64) -> Result<(), RandomAccessError> {
        self.enter("d", offset, length).await?;
        let cur = self.disk.0.lock().unwrap().img[self.store].len() as u64;
        if offset > cur {
            return Err(RandomAccessError::OutOfBounds {
                offset,
                end: None,
                length: cur,
            });
        }
        self.record(JKind::Del {
            off: offset,
            len: length,
        });
        Ok(())
    }

    async fn truncate(&mut self, length: u64) -> Result<(), RandomAccessError> {
        self.enter("t", length, 0).await?;
        self.record(JKind::Trunc { len: length });
        Ok(())
    }

    async fn len(&mut self) -> Result<u64, RandomAccessError> {
        self.enter("l", 0, 0).await?;
        Ok(self.disk.0.lock().unwrap().img[self.store].len() as u64)
    }

    async fn is_empty(&mut self) -> Result<bool, RandomAccessError> {
        self.enter("e", 0, 0).await?;
        Ok(self.disk.0.lock().unwrap().img[self.store].is_empty())
    }

    async fn sync_all(&mut self) -> Result<(), RandomAccessError> {
        Ok(())
    }
}
