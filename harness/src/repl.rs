//! Writer/replica driver (C03, C04, C09, C13): honest replication in random request orders with
//! partial upgrades and replica reopen/crash points, altered and forged proofs, and the boundary
//! lattice of requests and structurally arbitrary proofs.
use crate::abs::*;
use crate::core::*;
use crate::rec::Rec;
use crate::vstore::*;
use hypercore::{
    DataBlock, DataHash, DataSeek, DataUpgrade, Node, PartialKeypair, Proof, RequestBlock,
    RequestSeek, RequestUpgrade,
};
use merkle_tree_stream::Node as NodeTrait;
use rand::rngs::StdRng;
use rand::{Rng, SeedableRng};
use serde_json::{json, Value};

fn public_only(kp: &PartialKeypair) -> PartialKeypair {
    PartialKeypair {
        public: kp.public,
        secret: None,
    }
}

fn node_json(n: &Node) -> Value {
    json!([n.index(), n.len(), crc32fast::hash(n.hash()) & 0x7fff_ffff])
}

pub fn proof_shape(p: &Proof) -> Value {
    let nodes = |v: &Vec<Node>| Value::Array(v.iter().map(|n| json!(n.index())).collect());
    json!({
        "fork": p.fork,
        "block": p.block.as_ref().map(|b| json!({"i": b.index, "size": b.value.len(), "nodes": nodes(&b.nodes)})),
        "hash": p.hash.as_ref().map(|h| json!({"i": h.index, "nodes": nodes(&h.nodes)})),
        "seek": p.seek.as_ref().map(|s| json!({"bytes": s.bytes, "nodes": nodes(&s.nodes)})),
        "up": p.upgrade.as_ref().map(|u| json!({"start": u.start, "n": u.length, "nodes": nodes(&u.nodes),
               "extra": nodes(&u.additional_nodes), "siglen": u.signature.len()})),
    })
}

#[derive(Clone, Debug)]
pub struct Req {
    pub block: Option<RequestBlock>,
    pub hash: Option<RequestBlock>,
    pub seek: Option<RequestSeek>,
    pub upgrade: Option<RequestUpgrade>,
}

impl Req {
    fn json(&self) -> Value {
        json!({
            "block": self.block.as_ref().map(|b| json!([b.index, b.nodes])),
            "hash": self.hash.as_ref().map(|b| json!([b.index, b.nodes])),
            "seek": self.seek.as_ref().map(|s| json!(s.bytes)),
            "up": self.upgrade.as_ref().map(|u| json!([u.start, u.length])),
        })
    }
    /// what the spec needs to know about an honest request
    fn meta(&self, o: &str) -> Value {
        let up = self.upgrade.as_ref().map(|u| u.start + u.length).unwrap_or(0);
        json!({
            "o": o, "src": "w",
            "up": up, "hasup": self.upgrade.is_some(),
            "blk": self.block.as_ref().map(|b| b.index as i64).unwrap_or(-1),
            "hash": self.hash.as_ref().map(|b| b.index as i64).unwrap_or(-1),
            "seek": self.seek.as_ref().map(|s| s.bytes as i64).unwrap_or(-1),
            "req": self.json(),
        })
    }
}

pub struct Pair {
    pub w: Core,
    pub r: Core,
    pub wbytes: Vec<u64>, // sizes of writer blocks as appended (inputs recorded by the driver)
}

thread_local! {
    /// enumerate storage failures inside the writer's (read-only) create_proof calls as well
    static IOERR_READS: std::cell::Cell<bool> = const { std::cell::Cell::new(false) };
}

pub struct ReplDriver {
    pub d: Driver,
    pub rng: StdRng,
}

impl ReplDriver {
    fn rec(&self) -> &Rec {
        &self.d.rec
    }

    /// main-line operation on one of the two cores without fault enumeration
    fn plain(&mut self, core: &mut Core, op: &Op) -> Value {
        let opj = op_json(op);
        let j0 = core.disk.journal_len();
        let mut ev = json!({"e":"op","c":core.id,"op":opj});
        self.rec().begin(ev.clone());
        let ret = exec(core, op);
        ev["ret"] = ret.clone();
        ev["ev"] = core.drain();
        ev["view"] = core.view();
        self.rec().end();
        ev["jn"] = json!(core.disk.journal_len() - j0);
        ev["jc"] = journal_classes(&core.disk.journal_from(j0));
        ev["leak"] = json!([]);
        if let Some(js) = crate::checks::js_records(core) {
            ev["js"] = js;
        }
        if crate::core::CFG.with(|c| c.borrow().dir.as_os_str().len() > 0) {
            ev["img"] = core.image_digest();
        }
        self.rec().count("calls", 1);
        self.rec().emit(ev);
        ret
    }

    /// Build a well-formed request from the replica's own state (C03's notion of well-formed).
    fn honest_request(&mut self, p: &mut Pair, want_block: Option<u64>) -> Option<Req> {
        let rlen = p.r.len();
        let wlen = p.w.len();
        if wlen == 0 {
            return None;
        }
        let upgrade = if rlen < wlen {
            // full or partial upgrade to any length in (rlen, wlen]
            let l = if self.rng.gen_bool(0.5) { wlen } else { self.rng.gen_range(rlen + 1..=wlen) };
            Some(RequestUpgrade { start: rlen, length: l - rlen })
        } else {
            None
        };
        let leff = upgrade.as_ref().map(|u| u.start + u.length).unwrap_or(rlen);
        let kind = if want_block.is_some() { 0 } else { self.rng.gen_range(0..10) };
        let mut req = Req { block: None, hash: None, seek: None, upgrade };
        match kind {
            0..=5 => {
                // block request
                let i = want_block.unwrap_or_else(|| self.rng.gen_range(0..leff));
                if i >= leff {
                    return None;
                }
                let nodes = p.r.missing_nodes(i).ok()?;
                req.block = Some(RequestBlock { index: i, nodes });
            }
            6..=7 => {
                // hash of a tree node inside the upgraded tree
                let j = self.rng.gen_range(0..(2 * leff).saturating_sub(1).max(1));
                if flat_tree::right_span(j) >= 2 * leff {
                    return None;
                }
                // a node that straddles the replica's current length cannot be asked for together
                // with the upgrade that creates it (the protocol has no such proof): not well formed
                if req.upgrade.is_some() && flat_tree::left_span(j) < 2 * rlen && flat_tree::right_span(j) >= 2 * rlen {
                    return None;
                }
                let nodes = p.r.missing_nodes_tree(j).ok()?;
                req.hash = Some(RequestBlock { index: j, nodes });
            }
            8 => {} // upgrade only (or nothing)
            _ => {
                // seek only
                let total: u64 = p.wbytes[..leff as usize].iter().sum();
                if total > 0 {
                    req.seek = Some(RequestSeek { bytes: self.rng.gen_range(0..total) });
                }
            }
        }
        // optional in-range seek next to a block/hash request, where the request stays well formed
        if (req.block.is_some() || req.hash.is_some()) && self.rng.gen_bool(0.25) {
            let start = req.upgrade.as_ref().map(|u| u.start);
            let idx_block = req
                .block
                .as_ref()
                .map(|b| b.index)
                .or_else(|| req.hash.as_ref().map(|h| flat_tree::right_span(h.index) / 2))
                .unwrap();
            let below_start = start.map(|s| idx_block < s).unwrap_or(true);
            // the seek has to fall inside the subtree the block/hash proof spans
            // (the node `nodes` levels above the requested one)
            let (ti, tn) = req
                .block
                .as_ref()
                .map(|b| (2 * b.index, b.nodes))
                .or_else(|| req.hash.as_ref().map(|h| (h.index, h.nodes)))
                .unwrap();
            let mut root = ti;
            for _ in 0..tn {
                root = flat_tree::parent(root);
            }
            let lo = (flat_tree::left_span(root) / 2) as usize;
            let hi = ((flat_tree::right_span(root) / 2) as usize + 1).min(p.wbytes.len());
            let off: u64 = p.wbytes[..lo].iter().sum();
            let size: u64 = p.wbytes[lo..hi].iter().sum();
            if below_start && size > 0 && hi <= leff as usize {
                req.seek = Some(RequestSeek { bytes: off + self.rng.gen_range(0..size) });
            }
        }
        if req.block.is_none() && req.hash.is_none() && req.seek.is_none() && req.upgrade.is_none() {
            return None;
        }
        Some(req)
    }

    /// The writer answers a request (logged as a read-only operation of the writer).
    fn make_proof(&mut self, p: &mut Pair, req: &Req) -> Option<Proof> {
        let mut ev = json!({"e":"op","c":"w","op":req.meta("mkproof")});
        self.rec().begin(ev.clone());
        let r = p.w.create_proof(req.block.clone(), req.hash.clone(), req.seek.clone(), req.upgrade.clone());
        let (ret, proof) = match r {
            Ok(Some(pr)) => (json!({"t":"proof"}), Some(pr)),
            Ok(None) => (json!({"t":"none"}), None),
            Err(e) => (e, None),
        };
        ev["ret"] = ret;
        ev["ev"] = p.w.drain();
        ev["view"] = p.w.view();
        self.rec().end();
        ev["jn"] = json!(0);
        ev["leak"] = json!([]);
        if let Some(pr) = &proof {
            ev["shape"] = proof_shape(pr);
        }
        self.rec().count("proofs_created", 1);
        self.rec().emit(ev);
        if proof.is_some() && IOERR_READS.with(|c| c.get()) {
            self.mkproof_ioerr(p, req);
        }
        proof
    }

    /// C10 for the prover: every storage read of a successful create_proof fails once, on a copy of
    /// the writer's storage; the call must report an error (never "no proof"), and the storage
    /// reopens to the same log.
    fn mkproof_ioerr(&mut self, p: &mut Pair, req: &Req) {
        let images = p.w.images();
        let nops = {
            let (mut probe, res) = Core::open("w", VDisk::from_images(images.clone()));
            if !matches!(res, OpenResult::Ok) {
                return;
            }
            let o0 = probe.disk.ops();
            let _ = probe.create_proof(req.block.clone(), req.hash.clone(), req.seek.clone(), req.upgrade.clone());
            (probe.disk.ops() - o0) as usize
        };
        for j in 0..nops.min(24) {
            let (mut core, res) = Core::open("w", VDisk::from_images(images.clone()));
            if !matches!(res, OpenResult::Ok) {
                return;
            }
            let at = core.disk.ops() + j as u64;
            core.disk.arm_failure(at);
            let mut ev = json!({"e":"ioerr","c":"w","op":req.meta("mkproof"),"j":j});
            self.rec().begin(ev.clone());
            let r = core.create_proof(req.block.clone(), req.hash.clone(), req.seek.clone(), req.upgrade.clone());
            let hit = core.disk.disarm();
            ev["ret"] = match r {
                Ok(Some(_)) => json!({"t":"proof"}),
                Ok(None) => json!({"t":"none"}),
                Err(e) => e,
            };
            ev["hit"] = json!(hit);
            ev["ev"] = core.drain();
            let res = core.reopen();
            ev["open"] = open_json(&res);
            if let OpenResult::Ok = res {
                ev["view"] = core.view();
            }
            self.rec().end();
            if !hit {
                continue;
            }
            self.rec().count("ioerr_points", 1);
            self.rec().emit(json!({"e":"push"}));
            self.rec().emit(ev);
            self.rec().emit(json!({"e":"pop"}));
        }
    }

    /// Apply an honest proof on the replica, with fault enumeration when configured.
    fn apply_honest(&mut self, p: &mut Pair, req: &Req, proof: Proof, fc: &FaultCfg, lin: &mut Lineage) {
        let op = Op::Proof { proof: Box::new(proof), meta: req.meta("proof") };
        self.d.cid = "r".into();
        self.d.run_ops(&mut p.r, lin.clone(), &[op.clone()], fc, fc.depth);
        lin.ops.push(op);
        self.rec().count("proofs_applied", 1);
    }

    pub fn honest_run(&mut self, gen: Value, g: &ReplCfg, fc: &FaultCfg, forge: bool) {
        IOERR_READS.with(|c| c.set(fc.ioerr));
        self.rec().emit(json!({"e":"reset","gen":gen}));
        self.rec().count("histories", 1);
        let kp = test_key_pair();
        let (w, _) = Core::create("w", VDisk::new(), kp.clone());
        let (r, _) = Core::create("r", VDisk::new(), public_only(&kp));
        let mut p = Pair { w, r, wbytes: vec![] };
        let vw = p.w.view();
        self.rec().emit(json!({"e":"create","c":"w","key":"k1","writable":true,"view":vw}));
        let vr = p.r.view();
        self.rec().emit(json!({"e":"create","c":"r","key":"k1","writable":false,"view":vr}));
        self.plain_w(&mut p, &Op::Sub);
        self.plain_r(&mut p, &Op::Sub);
        if g.subs > 1 {
            self.plain_r(&mut p, &Op::Sub);
        }
        let mut lin = Lineage { start: Start::Images(p.r.disk.images()), ops: vec![Op::Sub] };
        if g.subs > 1 {
            lin.ops.push(Op::Sub);
        }
        let mut prev_sigs: Vec<Vec<u8>> = vec![];
        for _round in 0..g.rounds {
            // the writer grows (and clears)
            let nw = self.rng.gen_range(1..=g.writer_ops);
            for _ in 0..nw {
                let len = p.w.len();
                let op = if len > 0 && self.rng.gen_bool(g.p_clear) {
                    let s = self.rng.gen_range(0..len);
                    Op::Clear(s, self.rng.gen_range(s + 1..=len))
                } else if self.rng.gen_bool(0.5) {
                    Op::Append(self.block(g))
                } else {
                    let n = self.rng.gen_range(1..=g.max_batch);
                    Op::Batch((0..n).map(|_| self.block(g)).collect())
                };
                match &op {
                    Op::Append(b) => p.wbytes.push(b.len() as u64),
                    Op::Batch(bs) => p.wbytes.extend(bs.iter().map(|b| b.len() as u64)),
                    _ => {}
                }
                self.plain_w(&mut p, &op);
            }
            // the writer is sometimes restarted before it serves: what it signs and serves after
            // replaying its unflushed entries must be what it served before
            if self.rng.gen_bool(0.3) {
                self.plain_w(&mut p, &Op::Reopen);
                for _ in 0..1 {
                    self.plain_w(&mut p, &Op::Sub);
                }
            }
            // the replica asks, in random order
            let nr = self.rng.gen_range(1..=g.requests);
            for _ in 0..nr {
                if self.rng.gen_bool(g.p_reopen) {
                    self.plain_r(&mut p, &Op::Reopen);
                    lin.ops.push(Op::Reopen);
                    for _ in 0..g.subs {
                        self.plain_r(&mut p, &Op::Sub);
                        lin.ops.push(Op::Sub);
                    }
                }
                if self.rng.gen_bool(0.12) && p.r.len() > 0 {
                    // The replica drops a range.  A sparse replica cannot always compute the byte
                    // range of blocks it does not hold, so whether the call is applicable is
                    // found out on a copy of its storage first; the effect is judged by the spec.
                    let len = p.r.len();
                    let s0 = self.rng.gen_range(0..len);
                    let e0 = self.rng.gen_range(s0 + 1..=len);
                    let (mut probe, res) = Core::open("r", VDisk::from_images(p.r.images()));
                    if matches!(res, OpenResult::Ok) && probe.clear(s0, e0)["t"] == "ok" {
                        let op = Op::Clear(s0, e0);
                        self.plain_r(&mut p, &op);
                        lin.ops.push(op);
                        self.rec().count("replica_clears", 1);
                    }
                }
                if self.rng.gen_bool(0.15) {
                    let i = self.rng.gen_range(0..p.w.len().max(1) + 2);
                    self.plain_r(&mut p, &Op::Get(i));
                    lin.ops.push(Op::Get(i));
                }
                let req = match self.honest_request(&mut p, None) {
                    Some(r) => r,
                    None => continue,
                };
                let proof = match self.make_proof(&mut p, &req) {
                    Some(pr) => pr,
                    None => continue, // cleared on the writer: no proof rather than a wrong one
                };
                if forge {
                    if let Some(u) = &proof.upgrade {
                        prev_sigs.push(u.signature.clone());
                    }
                    // every alteration of this proof, judged from the current replica state
                    let accepted = self.forgeries(&mut p, &req, &proof, &prev_sigs, &mut lin, g.subs.max(1));
                    if accepted {
                        // a harmless acceptance changed the replica: the request is stale now
                        continue;
                    }
                }
                let again = if self.rng.gen_bool(0.2) { Some(proof.clone()) } else { None };
                self.apply_honest(&mut p, &req, proof, fc, &mut lin);
                if let Some(dup) = again {
                    // The same answer delivered a second time.  It is no longer a well-formed
                    // answer (its upgrade does not start at the replica's length any more), so
                    // it may be refused; if it is accepted it must behave like any accepted proof
                    // (state, upgrade/have events).
                    let mut meta = req.meta("proof");
                    meta["dup"] = json!(true);
                    let op = Op::Proof { proof: Box::new(dup), meta };
                    self.d.cid = "r".into();
                    self.d.run_ops(&mut p.r, lin.clone(), &[op.clone()], fc, fc.depth);
                    lin.ops.push(op);
                    self.rec().count("redeliveries", 1);
                }
            }
        }
        self.complete_sync(&mut p, &mut lin);
        // final cross-check, logged so that TLC sees both views side by side
        self.plain_r(&mut p, &Op::Reopen);
        let wv = p.w.view();
        let rv = p.r.view();
        self.rec().emit(json!({"e":"synced","w":wv,"r":rv}));
    }

    /// Replicate until the replica has the writer's length and every block the writer still holds.
    fn complete_sync(&mut self, p: &mut Pair, lin: &mut Lineage) {
        let mut guard = 0;
        while guard < 6 * (p.w.len() + 2) {
            guard += 1;
            let rlen = p.r.len();
            let wlen = p.w.len();
            let missing: Vec<u64> = (0..wlen)
                .filter(|i| p.w.has(*i).unwrap_or(false) && !(*i < rlen && p.r.has(*i).unwrap_or(false)))
                .collect();
            if missing.is_empty() && rlen == wlen {
                break;
            }
            let want = missing.first().copied();
            let req = if let Some(i) = want {
                // full upgrade first so that the block lies inside the tree
                let mut r = match self.honest_request(p, Some(i)) {
                    Some(r) => r,
                    None => {
                        let u = RequestUpgrade { start: rlen, length: wlen - rlen };
                        Req { block: None, hash: None, seek: None, upgrade: Some(u) }
                    }
                };
                if let Some(u) = r.upgrade.as_mut() {
                    if u.start + u.length <= i {
                        u.length = wlen - u.start;
                        if let Some(b) = r.block.as_mut() {
                            b.nodes = p.r.missing_nodes(i).unwrap_or(0);
                        }
                    }
                }
                r
            } else {
                Req {
                    block: None,
                    hash: None,
                    seek: None,
                    upgrade: Some(RequestUpgrade { start: rlen, length: wlen - rlen }),
                }
            };
            if let Some(proof) = self.make_proof(p, &req) {
                self.apply_honest(p, &req, proof, &FaultCfg::none(), lin);
            } else {
                break;
            }
        }
    }

    fn plain_w(&mut self, p: &mut Pair, op: &Op) -> Value {
        self.plain(&mut p.w, op)
    }
    fn plain_r(&mut self, p: &mut Pair, op: &Op) -> Value {
        self.plain(&mut p.r, op)
    }

    fn block(&mut self, g: &ReplCfg) -> Vec<u8> {
        let size = if self.rng.gen_bool(0.1) { 0 } else { self.rng.gen_range(1..=g.max_block) };
        (0..size).map(|_| self.rng.gen()).collect()
    }

    // -----------------------------------------------------------------------
    // Tour of the bounded model MCAbsTour (spec -> implementation): replay a path exported by
    // TLC, then try every operation of the alphabet from the state it leads to.

    /// Translate a model operation into a real one and execute it. `log` = emit events.
    /// Returns false when the operation is not applicable here (outside the properties' quantifier
    /// or not replayable), in which case nothing was executed.
    fn tour_step(&mut self, p: &mut Pair, who: &str, op: &Value, log: bool, lin: &mut Lineage) -> bool {
        let o = op["o"].as_str().unwrap_or("");
        let quiet = |core: &mut Core, op: &Op| {
            exec(core, op);
            core.drain();
        };
        match (who, o) {
            (_, "append") => {
                let mut blocks: Vec<Vec<u8>> = vec![];
                for r in op["runs"].as_array().unwrap() {
                    for _ in 0..r[0].as_u64().unwrap() {
                        let k = p.wbytes.len() + blocks.len();
                        blocks.push(vec![(r[2].as_u64().unwrap() as u8).wrapping_mul(40).wrapping_add(k as u8); r[1].as_u64().unwrap() as usize]);
                    }
                }
                let real = if blocks.len() == 1 { Op::Append(blocks[0].clone()) } else { Op::Batch(blocks.clone()) };
                if who == "w" {
                    let writable = p.w.hc.as_ref().map(|h| h.info().writeable).unwrap_or(false);
                    if writable {
                        p.wbytes.extend(blocks.iter().map(|b| b.len() as u64));
                    }
                    if log { self.plain_w(p, &real); } else { quiet(&mut p.w, &real); }
                } else if log { self.plain_r(p, &real); } else { quiet(&mut p.r, &real); }
                true
            }
            (_, "clear") => {
                let (s0, e0) = (op["s"].as_u64().unwrap(), op["e"].as_u64().unwrap());
                let len = if who == "w" { p.w.len() } else { p.r.len() };
                if s0 >= e0 || s0 >= len {
                    return false;
                }
                if who == "r" {
                    let (mut probe, res) = Core::open("r", VDisk::from_images(p.r.images()));
                    if !matches!(res, OpenResult::Ok) || probe.clear(s0, e0)["t"] != "ok" {
                        return false;
                    }
                }
                let real = Op::Clear(s0, e0);
                if who == "w" { if log { self.plain_w(p, &real); } else { quiet(&mut p.w, &real); } }
                else if log { self.plain_r(p, &real); } else { quiet(&mut p.r, &real); }
                true
            }
            (_, "get") | (_, "mro") | (_, "reopen") | (_, "sub") => {
                let real = match o {
                    "get" => Op::Get(op["i"].as_u64().unwrap()),
                    "mro" => Op::Mro,
                    "reopen" => Op::Reopen,
                    _ => Op::Sub,
                };
                if who == "w" { if log { self.plain_w(p, &real); } else { quiet(&mut p.w, &real); } }
                else if log { self.plain_r(p, &real); } else { quiet(&mut p.r, &real); }
                true
            }
            ("r", "proof") => {
                let (rl, wl) = (p.r.len(), p.w.len());
                let blk = op["blk"].as_i64().unwrap();
                let hasup = op["hasup"] == true;
                if hasup != (rl < wl) || (blk < 0 && !hasup) || blk >= wl as i64 {
                    return false;
                }
                let block = if blk >= 0 { Some(RequestBlock { index: blk as u64, nodes: p.r.missing_nodes(blk as u64).unwrap_or(0) }) } else { None };
                let upgrade = if hasup { Some(RequestUpgrade { start: rl, length: wl - rl }) } else { None };
                let req = Req { block, hash: None, seek: None, upgrade };
                if blk >= 0 && !p.w.has(blk as u64).unwrap_or(false) {
                    return false; // cleared on the writer: there is no proof to replay
                }
                if log {
                    match self.make_proof(p, &req) {
                        Some(proof) => { self.apply_honest(p, &req, proof, &FaultCfg::none(), lin); true }
                        None => false,
                    }
                } else {
                    match p.w.create_proof(req.block.clone(), None, None, req.upgrade.clone()) {
                        Ok(Some(proof)) => { p.r.apply_proof(&proof); p.r.drain(); p.w.drain(); true }
                        _ => false,
                    }
                }
            }
            _ => false,
        }
    }

    fn tour_pair(&mut self) -> Pair {
        let kp = test_key_pair();
        let (w, _) = Core::create("w", VDisk::new(), kp.clone());
        let (r, _) = Core::create("r", VDisk::new(), public_only(&kp));
        Pair { w, r, wbytes: vec![] }
    }

    /// Replay one behaviour exported by TLC from spec/HcStore.tla with Role = "replica": the remote
    /// writer grows (`grow n`), the replica applies honest proofs (`apply hasblk i up`: block i
    /// with the nodes the replica says it misses, and/or an upgrade to the writer's current
    /// length), closes, reopens, and crashes at the program counter the model names.  Calls that
    /// do not crash in the behaviour get the configured fault enumeration as side branches.
    pub fn replica_behaviour(&mut self, gen: Value, hist: &Value, fc: &FaultCfg) {
        self.rec().emit(json!({"e":"reset","gen":gen}));
        self.rec().count("histories", 1);
        let kp = test_key_pair();
        let (w, _) = Core::create("w", VDisk::new(), kp.clone());
        let (r, _) = Core::create("r", VDisk::new(), public_only(&kp));
        let mut p = Pair { w, r, wbytes: vec![] };
        let vw = p.w.view();
        self.rec().emit(json!({"e":"create","c":"w","key":"k1","writable":true,"view":vw}));
        let vr = p.r.view();
        self.rec().emit(json!({"e":"create","c":"r","key":"k1","writable":false,"view":vr}));
        let mut lin = Lineage { start: Start::Images(p.r.disk.images()), ops: vec![] };
        let steps = hist.as_array().unwrap().clone();
        let mut i = 0;
        while i < steps.len() {
            let st = steps[i].as_array().unwrap();
            let name = st[0].as_str().unwrap();
            let next = steps.get(i + 1).map(|s| s[0].as_str().unwrap().to_string());
            match name {
                "grow" => {
                    let n = st[1].as_u64().unwrap();
                    let blocks: Vec<Vec<u8>> = (0..n)
                        .map(|k| {
                            let idx = p.wbytes.len() as u64 + k;
                            vec![idx as u8 + 1; 1 + (idx % 3) as usize]
                        })
                        .collect();
                    p.wbytes.extend(blocks.iter().map(|b| b.len() as u64));
                    self.plain_w(&mut p, &Op::Batch(blocks));
                }
                "apply" => {
                    let hasblk = st[1].as_u64().unwrap() == 1;
                    let blk = st[2].as_u64().unwrap();
                    let up = st[3].as_u64().unwrap() == 1;
                    let (rlen, wlen) = (p.r.len(), p.w.len());
                    let req = Req {
                        block: if hasblk {
                            Some(RequestBlock { index: blk, nodes: p.r.missing_nodes(blk).unwrap_or(0) })
                        } else {
                            None
                        },
                        hash: None,
                        seek: None,
                        upgrade: if up { Some(RequestUpgrade { start: rlen, length: wlen - rlen }) } else { None },
                    };
                    let proof = match self.make_proof(&mut p, &req) {
                        Some(pr) => pr,
                        None => {
                            self.rec().count("rbeh_cut", 1);
                            return;
                        }
                    };
                    if matches!(next.as_deref(), Some("crash") | Some("torn")) {
                        // the behaviour's own crash: the storage operations of the call up to the
                        // program counter the model names, then reopen
                        let pc = steps[i + 1][1].as_str().unwrap().to_string();
                        let torn = next.as_deref() == Some("torn");
                        let op = Op::Proof { proof: Box::new(proof), meta: req.meta("proof") };
                        let opj = op_json(&op);
                        let pre = p.r.disk.images();
                        let j0 = p.r.disk.journal_len();
                        exec(&mut p.r, &op);
                        let jops = p.r.disk.journal_from(j0);
                        let k = prefix_for_pc(&jops, &pc);
                        let mut img = pre;
                        for o in &jops[..k] {
                            apply(&mut img, o);
                        }
                        let mut cut: i64 = -1;
                        if torn && k < jops.len() {
                            if let JKind::Write { data, .. } = &jops[k].kind {
                                cut = (data.len() / 2).min(40) as i64;
                                apply_torn(&mut img, &jops[k], cut as usize);
                            }
                        }
                        let mut ev = json!({"e":"crashopen","c":"r","op":opj,"ks":[k],"m":jops.len(),"cut":cut,"pc":pc});
                        let (c2, res) = Core::open("r", VDisk::from_images(img.clone()));
                        p.r = c2;
                        ev["open"] = open_json(&res);
                        if let OpenResult::Ok = res {
                            ev["view"] = p.r.view();
                        }
                        self.rec().count("crash_points", 1);
                        self.rec().emit(ev);
                        if !matches!(res, OpenResult::Ok) {
                            return;
                        }
                        lin = Lineage { start: Start::Images(img), ops: vec![] };
                        i += 2;
                        continue;
                    }
                    self.apply_honest(&mut p, &req, proof, fc, &mut lin);
                }
                "open" => {
                    if i > 0 && steps[i - 1][0] == "close" {
                        self.plain_r(&mut p, &Op::Reopen);
                        lin.ops.push(Op::Reopen);
                    }
                }
                _ => {}
            }
            i += 1;
        }
        // whatever the behaviour left: the replica can still be completed from the writer
        self.rec().count("rbeh_paths", 1);
    }

    pub fn tour_run(&mut self, gen: Value, hist: &Value) {
        let steps = hist.as_array().unwrap().clone();
        // main line, logged
        self.rec().emit(json!({"e":"reset","gen":gen}));
        let mut p = self.tour_pair();
        let vw = p.w.view();
        self.rec().emit(json!({"e":"create","c":"w","key":"k1","writable":true,"view":vw}));
        let vr = p.r.view();
        self.rec().emit(json!({"e":"create","c":"r","key":"k1","writable":false,"view":vr}));
        let mut lin = Lineage { start: Start::Images(p.r.disk.images()), ops: vec![] };
        for st in &steps {
            if !self.tour_step(&mut p, st[0].as_str().unwrap(), &st[1], true, &mut lin) {
                self.rec().count("tour_paths_cut", 1);
                return;
            }
        }
        self.rec().count("histories", 1);
        self.rec().count("tour_paths", 1);
        // every operation of the alphabet from here, each from a freshly rebuilt pair
        let (wl, rl) = (p.w.len(), p.r.len());
        let mut alphabet: Vec<(&str, Value)> = vec![];
        for runs in [json!([]), json!([[1, 0, 1]]), json!([[1, 1, 2]]), json!([[2, 1, 1]]), json!([[1, 0, 1], [1, 2, 2]])] {
            alphabet.push(("w", json!({"o":"append","runs":runs})));
        }
        for s0 in 0..wl {
            for e0 in (s0 + 1)..=(wl + 1) {
                alphabet.push(("w", json!({"o":"clear","s":s0,"e":e0})));
            }
        }
        for i in 0..=(wl + 1) {
            alphabet.push(("w", json!({"o":"get","i":i})));
        }
        for o in ["mro", "reopen", "sub"] {
            alphabet.push(("w", json!({"o":o})));
        }
        for b in -1..(wl as i64) {
            alphabet.push(("r", json!({"o":"proof","blk":b,"hasup":rl < wl})));
        }
        for i in 0..=(rl + 1) {
            alphabet.push(("r", json!({"o":"get","i":i})));
        }
        alphabet.push(("r", json!({"o":"reopen"})));
        alphabet.push(("r", json!({"o":"append","runs":[[1, 1, 1]]})));
        for s0 in 0..rl {
            alphabet.push(("r", json!({"o":"clear","s":s0,"e":s0 + 1})));
        }
        for (who, op) in alphabet {
            let mut q = self.tour_pair();
            let mut l2 = Lineage { start: Start::Images(q.r.disk.images()), ops: vec![] };
            let mut ok = true;
            for st in &steps {
                if !self.tour_step(&mut q, st[0].as_str().unwrap(), &st[1], false, &mut l2) {
                    ok = false;
                    break;
                }
            }
            if !ok {
                continue;
            }
            // subscribers of the rebuilt pair: the quiet replay subscribed them already
            self.rec().emit(json!({"e":"push"}));
            if self.tour_step(&mut q, who, &op, true, &mut l2) {
                self.rec().count("tour_edges", 1);
            }
            self.rec().emit(json!({"e":"pop"}));
        }
    }

    // -----------------------------------------------------------------------
    // C08: a replica that fills a whole 32768-block bitfield page out of order

    pub fn page_run(&mut self, gen: Value, total: u64, variant: u64) {
        self.rec().emit(json!({"e":"reset","gen":gen}));
        self.rec().count("histories", 1);
        let kp = test_key_pair();
        let (w, _) = Core::create("w", VDisk::new(), kp.clone());
        let (r, _) = Core::create("r", VDisk::new(), public_only(&kp));
        let mut p = Pair { w, r, wbytes: vec![] };
        let vw = p.w.view();
        self.rec().emit(json!({"e":"create","c":"w","key":"k1","writable":true,"view":vw}));
        let vr = p.r.view();
        self.rec().emit(json!({"e":"create","c":"r","key":"k1","writable":false,"view":vr}));
        // one-byte blocks in runs of equal bytes (run-length friendly)
        let mut batch: Vec<Vec<u8>> = Vec::with_capacity(total as usize);
        let mut left = total;
        while left > 0 {
            let run = self.rng.gen_range(1..=left.min(7000));
            let byte: u8 = self.rng.gen();
            for _ in 0..run {
                batch.push(vec![byte]);
            }
            left -= run;
        }
        p.wbytes = vec![1; total as usize];
        self.plain_w(&mut p, &Op::Batch(batch));
        let mut lin = Lineage { start: Start::Images(p.r.disk.images()), ops: vec![] };
        let page = 32768u64;
        if variant % 4 == 3 {
            // a sparse replica holding a few blocks of the second page only, then a clear that
            // starts on the (never allocated) first page and ends between them
            let total2 = total.max(page + 400);
            if total2 > total {
                let more: Vec<Vec<u8>> = (0..(total2 - total)).map(|_| vec![7u8]).collect();
                p.wbytes.extend(more.iter().map(|_| 1));
                self.plain_w(&mut p, &Op::Batch(more));
            }
            let mut first_req = true;
            for i in (page..page + 12).chain(page + 232..page + 242) {
                let rlen = p.r.len();
                let req = Req { block: Some(RequestBlock { index: i, nodes: p.r.missing_nodes(i).unwrap_or(0) }), hash: None, seek: None,
                                upgrade: if first_req { Some(RequestUpgrade { start: rlen, length: total2 - rlen }) } else { None } };
                first_req = false;
                if let Some(proof) = self.make_proof(&mut p, &req) {
                    self.apply_honest(&mut p, &req, proof, &FaultCfg::none(), &mut lin);
                }
            }
            for (s0, e0) in [(100u64, page + 237), (page + 3, page + 5), (5u64, 10)] {
                let (mut probe, res) = Core::open("r", VDisk::from_images(p.r.images()));
                if matches!(res, OpenResult::Ok) && probe.clear(s0, e0)["t"] == "ok" {
                    self.plain_r(&mut p, &Op::Clear(s0, e0));
                    self.rec().count("replica_clears", 1);
                }
            }
            self.plain_r(&mut p, &Op::Reopen);
            return;
        }
        // first the last block of the page together with the upgrade
        let first = page - 1;
        let req = Req { block: Some(RequestBlock { index: first, nodes: p.r.missing_nodes(first).unwrap_or(0) }), hash: None, seek: None,
                        upgrade: Some(RequestUpgrade { start: 0, length: total }) };
        if let Some(proof) = self.make_proof(&mut p, &req) {
            self.apply_honest(&mut p, &req, proof, &FaultCfg::none(), &mut lin);
        }
        // then everything below it except one gap, in an order that depends on the variant, unlogged
        let gap = match variant % 3 { 0 => 0, 1 => 12345, _ => page - 2 };
        let mut order: Vec<u64> = (0..first).filter(|i| *i != gap).collect();
        match variant % 2 { 0 => order.reverse(), _ => {} }
        let mut failed = 0u64;
        for i in &order {
            let nodes = p.r.missing_nodes(*i).unwrap_or(0);
            match p.w.create_proof(Some(RequestBlock { index: *i, nodes }), None, None, None) {
                Ok(Some(pr)) => {
                    let ret = p.r.apply_proof(&pr);
                    if ret["applied"] != true {
                        failed += 1;
                    }
                }
                _ => failed += 1,
            }
        }
        p.r.drain();
        p.w.drain();
        let mut ranges = vec![];
        if gap > 0 { ranges.push(json!([0, gap])); }
        if gap + 1 < first { ranges.push(json!([gap + 1, first])); }
        let v = p.r.view();
        self.rec().count("proofs_applied", order.len() as u64);
        self.rec().emit(json!({"e":"bulk","c":"r","ranges":ranges,"failed":failed,"view":v}));
        // closing the gap
        let req = Req { block: Some(RequestBlock { index: gap, nodes: p.r.missing_nodes(gap).unwrap_or(0) }), hash: None, seek: None, upgrade: None };
        if let Some(proof) = self.make_proof(&mut p, &req) {
            self.apply_honest(&mut p, &req, proof, &FaultCfg::none(), &mut lin);
        }
        self.plain_r(&mut p, &Op::Reopen);
        // one block beyond the page, then reopen again
        if total > page {
            let req = Req { block: Some(RequestBlock { index: page, nodes: p.r.missing_nodes(page).unwrap_or(0) }), hash: None, seek: None, upgrade: None };
            if let Some(proof) = self.make_proof(&mut p, &req) {
                self.apply_honest(&mut p, &req, proof, &FaultCfg::none(), &mut lin);
            }
            self.plain_r(&mut p, &Op::Reopen);
        }
    }

    // -----------------------------------------------------------------------
    // C04: alterations of an honest proof

    /// Apply every alteration, each judged from the same replica state: an accepted one is
    /// followed (sometimes) by honest replication to completion and then rolled back by
    /// restoring the replica's storage (push/pop in the trace).
    fn forgeries(&mut self, p: &mut Pair, req: &Req, honest: &Proof, prev_sigs: &[Vec<u8>], lin: &mut Lineage, subs: usize) -> bool {
        let mut alts = alterations(honest, &mut self.rng, prev_sigs);
        // a proof for the same blocks signed by a different writer
        if let Some(pr) = foreign_proof(p, req) {
            // only an upgrade is signed: without one, a proof over the same blocks from another
            // writer is byte-identical to the honest one
            alts.push(("other-writer".into(), req.upgrade.is_some(), pr));
        }
        // a forged block section riding on a genuine hash section (and the other way round):
        // whatever section the verifier authenticates, the block that gets stored must be it
        {
            let wl = p.w.len();
            let rl = p.r.len();
            let mut mixes: Vec<(String, bool, Proof)> = vec![];
            for _ in 0..3 {
                if rl == 0 {
                    break;
                }
                let j = self.rng.gen_range(0..(2 * rl).saturating_sub(1).max(1));
                if flat_tree::right_span(j) >= 2 * rl {
                    continue;
                }
                let nodes = p.r.missing_nodes_tree(j).unwrap_or(0);
                if let Ok(Some(hp)) = p.w.create_proof(None, Some(RequestBlock { index: j, nodes }), None, None) {
                    let i = self.rng.gen_range(0..wl.min(rl).max(1));
                    let mut m = hp.clone();
                    m.block = Some(DataBlock { index: i, value: vec![0xF0, 0x0D, i as u8], nodes: vec![] });
                    mixes.push((format!("forged-block-{i}-on-genuine-hash-{j}"), true, m));
                    if let Some(hb) = &honest.block {
                        let mut m2 = hp.clone();
                        m2.block = Some(DataBlock { index: hb.index, value: vec![0xF0, 0x0D], nodes: hb.nodes.clone() });
                        mixes.push((format!("forged-block-with-path-on-genuine-hash-{j}"), true, m2));
                    }
                }
            }
            p.w.drain();
            alts.extend(mixes);
        }
        // an extra seek section riding on the honest proof: nodes nobody asked for, garbage or genuine
        // ones of other places; whatever the verifier does with them, it must not keep what it has
        // not authenticated (judged by the node audit below)
        if honest.seek.is_none() && (honest.block.is_some() || honest.hash.is_some()) {
            let wl = p.w.len();
            let top = (2 * wl).saturating_sub(1).max(1);
            for variant in 0..4u64 {
                let k = 1 + (variant % 2) as usize;
                let mut nodes: Vec<Node> = vec![];
                let mut j = self.rng.gen_range(0..top);
                for _ in 0..k {
                    let n = if variant < 2 {
                        Node::new(j, vec![0xC0 | (variant as u8); 32], 1 + variant)
                    } else {
                        // a genuine node of the writer's tree at that index, if it has one
                        match p.w.create_proof(None, Some(RequestBlock { index: j, nodes: 0 }), None, None) {
                            Ok(Some(hp)) => match hp.hash.and_then(|h| h.nodes.first().cloned()) {
                                Some(n) => n,
                                None => Node::new(j, vec![0xC7; 32], 3),
                            },
                            _ => Node::new(j, vec![0xC7; 32], 3),
                        }
                    };
                    nodes.push(n);
                    j = flat_tree::sibling(j);
                }
                let mut m = honest.clone();
                m.seek = Some(DataSeek { bytes: self.rng.gen_range(0..4), nodes });
                alts.push((format!("seek-inserted-{}", if variant < 2 { "garbage" } else { "genuine" }), false, m));
            }
            p.w.drain();
        }
        for (name, must, forged) in alts {
            let mut meta = req.meta("forged");
            meta["alt"] = json!(name);
            meta["must"] = json!(must);
            let pre = p.r.disk.images();
            let op = Op::Proof { proof: Box::new(forged), meta };
            self.rec().emit(json!({"e":"push"}));
            let ret = self.plain_r(p, &op);
            self.rec().count("forged", 1);
            let accepted = ret["t"] == "ok" && ret["applied"] == true;
            if accepted {
                self.rec().count("forged_accepted", 1);
                // Merkle.tla's StoredTrue at the implementation: every tree node the replica can
                // produce after accepting an altered proof is the writer's node at that index
                let bad = self.node_audit(p);
                if !bad.is_empty() {
                    self.rec().emit(json!({"e":"foreign-node","c":"r","nodes":bad}));
                }
                if self.rng.gen_range(0..4) == 0 {
                    // honest replication must still complete from the state it left
                    let mut l2 = lin.clone();
                    self.complete_sync(p, &mut l2);
                    let wv = p.w.view();
                    let rv = p.r.view();
                    self.rec().emit(json!({"e":"synced","w":wv,"r":rv}));
                }
            }
            self.rec().emit(json!({"e":"pop"}));
            if accepted || ret["t"] != "ok" && ret["t"] != "err" {
                // roll the replica back to the state before the alteration
                let (mut core, _) = Core::open("r", VDisk::from_images(pre));
                for _ in 0..subs {
                    core.subscribe();
                }
                p.r = core;
            }
        }
        false
    }

    /// Indices of tree nodes that the replica serves (hash request for the node itself) with a hash
    /// or size different from the writer's node at that index.
    fn node_audit(&mut self, p: &mut Pair) -> Vec<u64> {
        let mut bad = vec![];
        let top = 2 * p.r.len().min(p.w.len());
        if top > 512 {
            return bad;
        }
        for j in 0..top.saturating_sub(1) {
            if flat_tree::right_span(j) >= top {
                continue;
            }
            let mine = match p.r.create_proof(None, Some(RequestBlock { index: j, nodes: 0 }), None, None) {
                Ok(Some(hp)) => hp.hash.and_then(|h| h.nodes.first().cloned()),
                _ => None,
            };
            let truth = match p.w.create_proof(None, Some(RequestBlock { index: j, nodes: 0 }), None, None) {
                Ok(Some(hp)) => hp.hash.and_then(|h| h.nodes.first().cloned()),
                _ => None,
            };
            if let (Some(a), Some(b)) = (mine, truth) {
                if a.hash() != b.hash() || a.len() != b.len() {
                    bad.push(j);
                }
            }
        }
        p.r.drain();
        p.w.drain();
        bad
    }

    // -----------------------------------------------------------------------
    // C09: boundary lattice of requests and structurally arbitrary proofs

    pub fn lattice_run(&mut self, gen: Value, nblocks: u64, cleared: bool, full: bool) {
        self.rec().emit(json!({"e":"reset","gen":gen}));
        self.rec().count("histories", 1);
        let kp = test_key_pair();
        let (w, _) = Core::create("w", VDisk::new(), kp.clone());
        let (r, _) = Core::create("r", VDisk::new(), public_only(&kp));
        let mut p = Pair { w, r, wbytes: vec![] };
        let vw = p.w.view();
        self.rec().emit(json!({"e":"create","c":"w","key":"k1","writable":true,"view":vw}));
        let vr = p.r.view();
        self.rec().emit(json!({"e":"create","c":"r","key":"k1","writable":false,"view":vr}));
        // a subscriber that is attached but never drained while the peer's requests are served
        // (best-effort delivery: a full queue must not stall the calls)
        let _idle_w = p.w.hc.as_ref().map(|h| h.event_subscribe());
        let _idle_r = p.r.hc.as_ref().map(|h| h.event_subscribe());
        for i in 0..nblocks {
            let b: Vec<u8> = (0..(1 + i % 3)).map(|k| (i as u8).wrapping_mul(5).wrapping_add(k as u8)).collect();
            p.wbytes.push(b.len() as u64);
            self.plain_w(&mut p, &Op::Append(b));
        }
        if cleared && nblocks > 1 {
            self.plain_w(&mut p, &Op::Clear(nblocks / 2, nblocks / 2 + 1));
        }
        // partially synced replica: half the length, first block
        let mut lin = Lineage { start: Start::Images(p.r.disk.images()), ops: vec![] };
        if nblocks > 1 {
            let half = (nblocks + 1) / 2;
            let req = Req {
                block: Some(RequestBlock { index: 0, nodes: p.r.missing_nodes(0).unwrap_or(0) }),
                hash: None,
                seek: None,
                upgrade: Some(RequestUpgrade { start: 0, length: half }),
            };
            if let Some(proof) = self.make_proof(&mut p, &req) {
                self.apply_honest(&mut p, &req, proof, &FaultCfg::none(), &mut lin);
            }
            // a second proof, applied by a call that does not flush: the replica's newest nodes
            // then live only in memory and in the oplog
            if nblocks > 3 {
                let rlen = p.r.len();
                let req = Req {
                    block: Some(RequestBlock { index: nblocks - 1, nodes: p.r.missing_nodes(nblocks - 1).unwrap_or(0) }),
                    hash: None,
                    seek: None,
                    upgrade: Some(RequestUpgrade { start: rlen, length: nblocks - rlen }),
                };
                if rlen < nblocks {
                    if let Some(proof) = self.make_proof(&mut p, &req) {
                        self.apply_honest(&mut p, &req, proof, &FaultCfg::none(), &mut lin);
                    }
                }
            }
        }
        // more events than the queue holds while nobody drains it
        for k in 0..40u64 {
            self.plain_w(&mut p, &Op::Get(nblocks + 3 + k));
            self.plain_r(&mut p, &Op::Get(nblocks + 3 + k));
        }
        let len = p.w.len();
        let bytes: u64 = p.wbytes.iter().sum();
        let bl = boundary(len);
        let bb = boundary(bytes);
        let mut count = 0u64;
        // requests: each section absent or with every field from the boundary set
        let blk_opts: Vec<Option<(u64, u64)>> = opt_pairs(&bl, &bl, full, &mut self.rng);
        let hash_opts: Vec<Option<(u64, u64)>> = opt_pairs(&bl, &bl, false, &mut self.rng);
        let up_opts: Vec<Option<(u64, u64)>> = opt_pairs(&bl, &bl, full, &mut self.rng);
        let mut seek_opts: Vec<Option<u64>> = vec![None];
        seek_opts.extend(bb.iter().map(|b| Some(*b)));
        for who in ["w", "r"] {
            for b in &blk_opts {
                for u in &up_opts {
                    for s in &seek_opts {
                        // hash only combined when block is absent (block wins otherwise)
                        let hs: Vec<Option<(u64, u64)>> = if b.is_none() { hash_opts.clone() } else { vec![None] };
                        for h in hs {
                            if !full && self.rng.gen_range(0..100) >= 12 {
                                continue;
                            }
                            let req = Req {
                                block: b.map(|(i, n)| RequestBlock { index: i, nodes: n }),
                                hash: h.map(|(i, n)| RequestBlock { index: i, nodes: n }),
                                seek: s.map(|x| RequestSeek { bytes: x }),
                                upgrade: u.map(|(a, n)| RequestUpgrade { start: a, length: n }),
                            };
                            self.raw_request(&mut p, who, &req);
                            count += 1;
                        }
                    }
                }
            }
        }
        self.rec().count("raw_requests", count);
        // structurally arbitrary proofs against the replica (and the writer)
        let arb = arbitrary_proofs(&mut p, &bl, &mut self.rng, if full { 600 } else { 150 });
        for (name, pr) in arb {
            let meta = json!({"o":"forged","alt":name,"must":false,"src":"w","up":0,"hasup":false,"blk":-1,"hash":-1,"seek":-1,"shape":proof_shape(&pr)});
            let op = Op::Proof { proof: Box::new(pr), meta };
            let ret = self.plain_r(&mut p, &op);
            self.rec().count("arbitrary_proofs", 1);
            if ret["t"] == "ok" && ret["applied"] == true {
                lin.ops.push(op);
            }
        }
        // afterwards both cores must still work
        self.plain_w(&mut p, &Op::Append(vec![9, 9]));
        p.wbytes.push(2);
        self.plain_w(&mut p, &Op::Get(0));
        let mut guard = 0;
        while guard < 4 * (p.w.len() + 2) {
            guard += 1;
            let rlen = p.r.len();
            let wlen = p.w.len();
            let missing: Vec<u64> = (0..wlen)
                .filter(|i| p.w.has(*i).unwrap_or(false) && !(*i < rlen && p.r.has(*i).unwrap_or(false)))
                .collect();
            if missing.is_empty() && rlen == wlen {
                break;
            }
            let upgrade = if rlen < wlen { Some(RequestUpgrade { start: rlen, length: wlen - rlen }) } else { None };
            let block = missing.first().map(|i| RequestBlock { index: *i, nodes: p.r.missing_nodes(*i).unwrap_or(0) });
            let req = Req { block, hash: None, seek: None, upgrade };
            if let Some(proof) = self.make_proof(&mut p, &req) {
                self.apply_honest(&mut p, &req, proof, &FaultCfg::none(), &mut lin);
            } else {
                break;
            }
        }
        let wv = p.w.view();
        let rv = p.r.view();
        self.rec().emit(json!({"e":"synced","w":wv,"r":rv}));
    }

    fn raw_request(&mut self, p: &mut Pair, who: &str, req: &Req) {
        let mut meta = req.meta("rawreq");
        meta["src"] = json!(who);
        let mut ev = json!({"e":"op","c":who,"op":meta});
        self.rec().begin(ev.clone());
        let core = if who == "w" { &mut p.w } else { &mut p.r };
        let r = core.create_proof(req.block.clone(), req.hash.clone(), req.seek.clone(), req.upgrade.clone());
        ev["ret"] = match r {
            Ok(Some(_)) => json!({"t":"proof"}),
            Ok(None) => json!({"t":"none"}),
            Err(e) => e,
        };
        ev["ev"] = core.drain();
        // a cheap projection: the full one after every raw request would dominate the run
        ev["view"] = core.view();
        self.rec().end();
        ev["jn"] = json!(0);
        ev["leak"] = json!([]);
        self.rec().emit(ev);
    }
}

impl FaultCfg {
    pub fn none() -> FaultCfg {
        FaultCfg { crash: false, torn: false, ioerr: false, depth: 0, cont: false, max_points: 0 }
    }
}

/// Boundary values around 0, len, 2*len and large values (all below 2^40)
pub fn boundary(len: u64) -> Vec<u64> {
    let mut v = vec![0, 1, 2, len.saturating_sub(1), len, len + 1, (2 * len).saturating_sub(2),
        (2 * len).saturating_sub(1), 2 * len, 2 * len + 1, 1 << 31, (1 << 32) - 1, 1 << 32, (1 << 40) - 1];
    v.sort();
    v.dedup();
    v
}

fn opt_pairs(a: &[u64], b: &[u64], full: bool, rng: &mut StdRng) -> Vec<Option<(u64, u64)>> {
    let mut out = vec![None];
    for x in a {
        for y in b {
            if full || rng.gen_range(0..100) < 30 {
                out.push(Some((*x, *y)));
            }
        }
    }
    out
}

fn flip(v: &mut [u8], bit: usize) {
    if !v.is_empty() {
        let b = bit % (v.len() * 8);
        v[b / 8] ^= 1 << (b % 8);
    }
}

fn renode(n: &Node, index: u64, hash: Vec<u8>, len: u64) -> Node {
    let _ = n;
    Node::new(index, hash, len)
}

/// All single-field alterations of an honest proof: (name, must_refuse, proof)
pub fn alterations(h: &Proof, rng: &mut StdRng, prev_sigs: &[Vec<u8>]) -> Vec<(String, bool, Proof)> {
    let mut out: Vec<(String, bool, Proof)> = vec![];
    // systematic forgeries: a substituted block whose proof path is cut short at every level (the
    // computed root then lands on a node further down, which the replica may not hold)
    if let Some(b) = &h.block {
        let forged_value: Vec<u8> = if b.value.is_empty() { vec![0xF0] } else { b.value.iter().map(|x| x ^ 0x5a).collect() };
        for keep in 0..=b.nodes.len() {
            let mut p = h.clone();
            let pb = p.block.as_mut().unwrap();
            pb.value = forged_value.clone();
            pb.nodes.truncate(keep);
            out.push((format!("forged-block-path-cut-{keep}"), true, p.clone()));
            // the same without the upgrade, so that nothing signed covers the block
            if p.upgrade.is_some() {
                p.upgrade = None;
                out.push((format!("forged-block-path-cut-{keep}-no-upgrade"), true, p));
            }
        }
    }
    // fork
    for (n, f) in [("fork+1", h.fork + 1), ("fork-big", (1u64 << 40) - 1)] {
        let mut p = h.clone();
        p.fork = f;
        out.push((n.into(), true, p));
    }
    // block value
    if let Some(b) = &h.block {
        let bits = b.value.len() * 8;
        if bits > 0 {
            for (n, bit) in [("value-flip-first", 0usize), ("value-flip-last", bits - 1), ("value-flip-seeded", rng.gen_range(0..bits))] {
                let mut p = h.clone();
                flip(&mut p.block.as_mut().unwrap().value, bit);
                out.push((n.into(), true, p));
            }
            let mut p = h.clone();
            p.block.as_mut().unwrap().value.pop();
            out.push(("value-truncated".into(), true, p));
        }
        let mut p = h.clone();
        p.block.as_mut().unwrap().value.push(0);
        out.push(("value-extended".into(), true, p));
        for (n, d) in [("block-index+1", 1i64), ("block-index-1", -1)] {
            if b.index as i64 + d >= 0 {
                let mut p = h.clone();
                p.block.as_mut().unwrap().index = (b.index as i64 + d) as u64;
                out.push((n.into(), false, p));
            }
        }
    }
    if let Some(hh) = &h.hash {
        for (n, d) in [("hash-index+1", 1i64), ("hash-index-1", -1)] {
            if hh.index as i64 + d >= 0 {
                let mut p = h.clone();
                p.hash.as_mut().unwrap().index = (hh.index as i64 + d) as u64;
                out.push((n.into(), false, p));
            }
        }
    }
    if let Some(s) = &h.seek {
        for (n, d) in [("seek-bytes+1", 1i64), ("seek-bytes-1", -1)] {
            if s.bytes as i64 + d >= 0 {
                let mut p = h.clone();
                p.seek.as_mut().unwrap().bytes = (s.bytes as i64 + d) as u64;
                out.push((n.into(), false, p));
            }
        }
    }
    // node lists of every section
    let sections: [&str; 5] = ["block", "hash", "seek", "up", "extra"];
    for sec in sections {
        let nodes: Vec<Node> = match sec {
            "block" => h.block.as_ref().map(|b| b.nodes.clone()),
            "hash" => h.hash.as_ref().map(|b| b.nodes.clone()),
            "seek" => h.seek.as_ref().map(|b| b.nodes.clone()),
            "up" => h.upgrade.as_ref().map(|b| b.nodes.clone()),
            _ => h.upgrade.as_ref().map(|b| b.additional_nodes.clone()),
        }
        .unwrap_or_default();
        let set = |p: &mut Proof, v: Vec<Node>| match sec {
            "block" => p.block.as_mut().unwrap().nodes = v,
            "hash" => p.hash.as_mut().unwrap().nodes = v,
            "seek" => p.seek.as_mut().unwrap().nodes = v,
            "up" => p.upgrade.as_mut().unwrap().nodes = v,
            _ => p.upgrade.as_mut().unwrap().additional_nodes = v,
        };
        let present = match sec {
            "block" => h.block.is_some(),
            "hash" => h.hash.is_some(),
            "seek" => h.seek.is_some(),
            _ => h.upgrade.is_some(),
        };
        if !present {
            continue;
        }
        for (k, n) in nodes.iter().enumerate() {
            for (nm, bit) in [("first", 0usize), ("last", 255), ("seeded", rng.gen_range(0..256))] {
                let mut v = nodes.clone();
                let mut hh = n.hash().to_vec();
                flip(&mut hh, bit);
                v[k] = renode(n, n.index(), hh, n.len());
                let mut p = h.clone();
                set(&mut p, v);
                out.push((format!("{sec}-node{k}-hash-flip-{nm}"), true, p));
            }
            // sizes: the bottom node of hash-only and seek sections is not individually
            // authenticated by the scheme (excluded by the property itself)
            let bottom_unauth = (sec == "hash" || sec == "seek") && k == 0;
            if !bottom_unauth {
                for (nm, d) in [("+1", 1i64), ("-1", -1)] {
                    if n.len() as i64 + d >= 0 {
                        let mut v = nodes.clone();
                        v[k] = renode(n, n.index(), n.hash().to_vec(), (n.len() as i64 + d) as u64);
                        let mut p = h.clone();
                        set(&mut p, v);
                        out.push((format!("{sec}-node{k}-size{nm}"), false, p));
                    }
                }
            }
            for (nm, d) in [("+1", 1i64), ("-1", -1)] {
                if n.index() as i64 + d >= 0 {
                    let mut v = nodes.clone();
                    v[k] = renode(n, (n.index() as i64 + d) as u64, n.hash().to_vec(), n.len());
                    let mut p = h.clone();
                    set(&mut p, v);
                    out.push((format!("{sec}-node{k}-index{nm}"), false, p));
                }
            }
            // drop, duplicate
            let mut v = nodes.clone();
            v.remove(k);
            let mut p = h.clone();
            set(&mut p, v);
            out.push((format!("{sec}-node{k}-drop"), false, p));
            let mut v = nodes.clone();
            v.insert(k, n.clone());
            let mut p = h.clone();
            set(&mut p, v);
            out.push((format!("{sec}-node{k}-dup"), false, p));
            if k + 1 < nodes.len() {
                let mut v = nodes.clone();
                v.swap(k, k + 1);
                let mut p = h.clone();
                set(&mut p, v);
                out.push((format!("{sec}-node{k}-swap"), false, p));
            }
        }
        // insert a foreign node at both ends
        let extra = Node::new(rng.gen_range(0..32), vec![7u8; 32], 1);
        for (nm, at) in [("front", 0usize), ("back", nodes.len())] {
            let mut v = nodes.clone();
            v.insert(at, extra.clone());
            let mut p = h.clone();
            set(&mut p, v);
            out.push((format!("{sec}-insert-{nm}"), false, p));
        }
    }
    // section removal
    if h.block.is_some() {
        let mut p = h.clone();
        p.block = None;
        out.push(("remove-block".into(), false, p));
    }
    if h.hash.is_some() {
        let mut p = h.clone();
        p.hash = None;
        out.push(("remove-hash".into(), false, p));
    }
    if h.seek.is_some() {
        let mut p = h.clone();
        p.seek = None;
        out.push(("remove-seek".into(), false, p));
    }
    if let Some(u) = &h.upgrade {
        if h.block.is_some() || h.hash.is_some() || h.seek.is_some() {
            let mut p = h.clone();
            p.upgrade = None;
            out.push(("remove-upgrade".into(), false, p));
        }
        // signature
        for (nm, bit) in [("first", 0usize), ("last", 511), ("seeded", rng.gen_range(0..512))] {
            let mut p = h.clone();
            flip(&mut p.upgrade.as_mut().unwrap().signature, bit);
            out.push((format!("sig-flip-{nm}"), true, p));
        }
        for (nm, sig) in [("sig-empty", vec![]), ("sig-63", vec![1u8; 63]), ("sig-65", vec![1u8; 65]), ("sig-zero", vec![0u8; 64])] {
            let mut p = h.clone();
            p.upgrade.as_mut().unwrap().signature = sig;
            out.push((nm.into(), true, p));
        }
        // a genuine signature of the same writer, but for another length
        for s in prev_sigs.iter().rev().take(3) {
            if *s != u.signature {
                let mut p = h.clone();
                p.upgrade.as_mut().unwrap().signature = s.clone();
                out.push(("sig-other-length".into(), true, p));
            }
        }
        // a signature by another key over the right message cannot be made without the message;
        // the whole-proof-from-another-writer case is produced by `foreign_proof`
        for (nm, ds, dn) in [("up-start+1", 1i64, 0i64), ("up-start-1", -1, 0), ("up-length+1", 0, 1), ("up-length-1", 0, -1)] {
            if u.start as i64 + ds >= 0 && u.length as i64 + dn >= 0 {
                let mut p = h.clone();
                let uu = p.upgrade.as_mut().unwrap();
                uu.start = (u.start as i64 + ds) as u64;
                uu.length = (u.length as i64 + dn) as u64;
                out.push((nm.into(), true, p));
            }
        }
    }
    out
}

/// The same request answered by a different writer holding blocks of the same sizes.
fn foreign_proof(p: &mut Pair, req: &Req) -> Option<Proof> {
    let (mut other, _) = Core::create("x", VDisk::new(), other_key_pair(1));
    let mut blocks: Vec<Vec<u8>> = vec![];
    let wlen = p.w.len();
    for i in 0..wlen {
        // same content where the writer still has it, same size otherwise
        let b = match p.w.get_raw(i) {
            Ok(Some(v)) => v,
            _ => vec![0u8; p.wbytes[i as usize] as usize],
        };
        blocks.push(b);
    }
    p.w.drain();
    if blocks.is_empty() {
        return None;
    }
    other.append_batch(&blocks);
    other
        .create_proof(req.block.clone(), req.hash.clone(), req.seek.clone(), req.upgrade.clone())
        .ok()
        .flatten()
}

/// Structurally arbitrary proofs: sections present or absent, 0..5 nodes with boundary indices,
/// 32-byte and wrong-length hashes, signatures of 0/63/64/65 bytes.
fn arbitrary_proofs(p: &mut Pair, bl: &[u64], rng: &mut StdRng, n: usize) -> Vec<(String, Proof)> {
    let mut out = vec![];
    let pick = |rng: &mut StdRng| bl[rng.gen_range(0..bl.len())];
    let mk_nodes = |rng: &mut StdRng| -> Vec<Node> {
        let k = rng.gen_range(0..=5);
        (0..k)
            .map(|_| {
                let hl = match rng.gen_range(0..10) {
                    0 => 0,
                    1 => 31,
                    2 => 33,
                    _ => 32,
                };
                Node::new(bl[rng.gen_range(0..bl.len())], (0..hl).map(|_| rng.gen()).collect(), bl[rng.gen_range(0..bl.len())])
            })
            .collect()
    };
    let fork = p.r.hc.as_ref().map(|h| h.info().fork).unwrap_or(0);
    // a hash or seek section consisting of a single node whose hash has the wrong length, for
    // every tree index the replica may store: the bare node is then compared with the stored one
    let rl = p.r.len();
    for idx in 0..(2 * rl).min(24) {
        for hl in [0usize, 1, 3, 31, 33] {
            let node = Node::new(idx, vec![0xAB; hl], 1);
            out.push((format!("bare-hash-node-{idx}-len{hl}"),
                      Proof { fork, block: None, hash: Some(DataHash { index: idx, nodes: vec![node.clone()] }), seek: None, upgrade: None }));
            out.push((format!("bare-seek-node-{idx}-len{hl}"),
                      Proof { fork, block: None, hash: None, seek: Some(DataSeek { bytes: 1, nodes: vec![node] }), upgrade: None }));
        }
    }
    for k in 0..n {
        let block = if rng.gen_bool(0.5) {
            Some(DataBlock { index: pick(rng), value: (0..rng.gen_range(0..4)).map(|_| rng.gen()).collect(), nodes: mk_nodes(rng) })
        } else {
            None
        };
        let hash = if block.is_none() && rng.gen_bool(0.4) { Some(DataHash { index: pick(rng), nodes: mk_nodes(rng) }) } else { None };
        let seek = if rng.gen_bool(0.3) { Some(DataSeek { bytes: pick(rng), nodes: mk_nodes(rng) }) } else { None };
        let upgrade = if rng.gen_bool(0.6) {
            let sl = [0usize, 63, 64, 65][rng.gen_range(0..4)];
            Some(DataUpgrade {
                start: pick(rng),
                length: pick(rng),
                nodes: mk_nodes(rng),
                additional_nodes: mk_nodes(rng),
                signature: (0..sl).map(|_| rng.gen()).collect(),
            })
        } else {
            None
        };
        let f = if rng.gen_bool(0.9) { fork } else { pick(rng) };
        out.push((format!("arbitrary-{k}"), Proof { fork: f, block, hash, seek, upgrade }));
    }
    out
}

#[derive(Clone, Debug)]
pub struct ReplCfg {
    pub rounds: usize,
    pub writer_ops: usize,
    pub requests: usize,
    pub max_block: usize,
    pub max_batch: usize,
    pub p_clear: f64,
    pub p_reopen: f64,
    pub subs: usize,
}

pub fn run(args: &[String]) {
    let mut seed = 1u64;
    let mut runs = 5usize;
    let mut out = "trace.ndjson".to_string();
    let mut mode = "honest".to_string();
    let mut faults = String::new();
    let mut only: Option<usize> = None;
    let mut size = "small".to_string();
    let mut input = String::new();
    let mut i = 0;
    while i < args.len() {
        let v = args.get(i + 1).cloned().unwrap_or_default();
        match args[i].as_str() {
            "--seed" => seed = v.parse().unwrap(),
            "--runs" => runs = v.parse().unwrap(),
            "--out" => out = v,
            "--mode" => mode = v,
            "--faults" => faults = v,
            "--size" => size = v,
            "--in" => input = v,
            "--only" => only = Some(v.parse().unwrap()),
            x => panic!("unknown argument {x}"),
        }
        i += 2;
    }
    let rec = Rec::new(&out, 90);
    let g = match size.as_str() {
        "small" => ReplCfg { rounds: 3, writer_ops: 3, requests: 5, max_block: 3, max_batch: 3, p_clear: 0.15, p_reopen: 0.2, subs: 1 },
        "medium" => ReplCfg { rounds: 4, writer_ops: 8, requests: 14, max_block: 64, max_batch: 6, p_clear: 0.1, p_reopen: 0.2, subs: 2 },
        "big" => ReplCfg { rounds: 5, writer_ops: 24, requests: 40, max_block: 2048, max_batch: 8, p_clear: 0.08, p_reopen: 0.2, subs: 2 },
        x => panic!("unknown size {x}"),
    };
    let fc = FaultCfg {
        crash: faults.contains("crash"),
        torn: faults.contains("torn"),
        ioerr: faults.contains("ioerr"),
        depth: if faults.is_empty() { 0 } else { 1 },
        cont: true,
        max_points: 0,
    };
    let tour_lines: Vec<String> = if mode == "tour" || mode == "rbeh" {
        std::fs::read_to_string(&input).unwrap().lines().map(|s| s.to_string()).collect()
    } else {
        vec![]
    };
    if mode == "tour" || mode == "rbeh" {
        runs = tour_lines.len();
    }
    for r in 0..runs {
        if only.is_some() && only != Some(r) {
            continue;
        }
        let rs = seed.wrapping_mul(1_000_003).wrapping_add(r as u64);
        let mut rd = ReplDriver {
            d: Driver { rec: rec.clone(), rng: StdRng::seed_from_u64(rs ^ 0x5eed), suffix_salt: rs, cid: "r".into() },
            rng: StdRng::seed_from_u64(rs),
        };
        let gen = json!({"drv":"abs","args":format!("repl --seed {seed} --runs {runs} --mode {mode} --size {size} --only {r}{}",
            if faults.is_empty() { String::new() } else { format!(" --faults {faults}") })});
        match mode.as_str() {
            "tour" => {
                let hist: Value = serde_json::from_str(&tour_lines[r]).unwrap();
                let gen = json!({"drv":"abs","hist":hist.clone(),"args":format!("repl --mode tour --in {input} --only {r}")});
                rd.tour_run(gen, &hist)
            }
            "rbeh" => {
                let hist: Value = serde_json::from_str(&tour_lines[r]).unwrap();
                let gen = json!({"drv":"abs","hist":hist.clone(),"args":format!("repl --mode rbeh --in {input} --only {r}{}",
                    if faults.is_empty() { String::new() } else { format!(" --faults {faults}") })});
                rd.replica_behaviour(gen, &hist, &fc)
            }
            "honest" => rd.honest_run(gen, &g, &fc, false),
            "forge" => rd.honest_run(gen, &g, &FaultCfg::none(), true),
            "page" => rd.page_run(gen, 32768 + (r as u64 % 3) * 117, seed.wrapping_add(r as u64)),
            "lattice" => {
                let sizes = [0u64, 1, 2, 3, 4, 5, 7, 8, 9];
                let n = sizes[r % sizes.len()];
                let cleared = (r / sizes.len()) % 2 == 1;
                rd.lattice_run(gen, n, cleared, n <= 2 && size == "big")
            }
            x => panic!("unknown mode {x}"),
        }
    }
    rec.finish();
}
