//! Store images <-> records, driven by the templates of spec/Layout.tla (C05, C06, C11).
use crate::core::*;
use crate::layout::*;
use crate::vstore::*;
use ed25519_dalek::{Signature, Signer, SigningKey, Verifier, VerifyingKey};
use serde_json::{json, Value};
use std::sync::OnceLock;

pub static LAYOUT: OnceLock<Option<Layout>> = OnceLock::new();

pub fn layout() -> Option<&'static Layout> {
    LAYOUT
        .get_or_init(|| std::env::var("HCV_LAYOUT").ok().map(|p| Layout::load(&p)))
        .as_ref()
}

pub const DEFAULT_NAMESPACE: [u8; 32] = [
    0x41, 0x44, 0xEE, 0xA5, 0x31, 0xE4, 0x83, 0xD5, 0x4E, 0x0C, 0x14, 0xF4, 0xCA, 0x68, 0xE0, 0x64,
    0x4F, 0x35, 0x53, 0x43, 0xFF, 0x6F, 0xCB, 0x0F, 0x00, 0x52, 0x00, 0xE1, 0x2C, 0xD7, 0x47, 0xCB,
];

#[derive(Clone, Debug)]
pub struct SlotRec {
    pub ok: bool,
    pub bit: u64,
    pub fields: Fields,
    pub payload: Vec<u8>,
}

#[derive(Clone, Debug)]
pub struct EntryRec {
    pub bit: u64,
    pub partial: bool,
    pub flags: u8,
    pub fields: Fields,
    pub size: usize,
}

pub fn decode_slot(l: &Layout, oplog: &[u8], s: usize) -> SlotRec {
    let size = l.num("slot_size") as usize;
    let lo = s * size;
    let none = SlotRec { ok: false, bit: 0, fields: Fields::new(), payload: vec![] };
    if oplog.len() < lo + 8 {
        return none;
    }
    let hi = (lo + size).min(oplog.len());
    match l.unframe(&oplog[lo..hi]) {
        None => none,
        Some((payload, _partial, bit, _)) => {
            let mut f = Fields::new();
            match l.dec(l.t("header"), payload, &mut f) {
                Some(_) => SlotRec { ok: true, bit, fields: f, payload: payload.to_vec() },
                None => none,
            }
        }
    }
}

pub fn decode_entries(l: &Layout, oplog: &[u8]) -> Vec<EntryRec> {
    let mut out = vec![];
    let mut off = l.num("entries_offset") as usize;
    while off < oplog.len() {
        match l.unframe(&oplog[off..]) {
            None => break,
            Some((payload, partial, bit, total)) => match l.entry_dec(payload) {
                None => break,
                Some((fields, flags)) => {
                    out.push(EntryRec { bit, partial, flags, fields, size: total });
                    off += total;
                }
            },
        }
    }
    out
}

pub fn bitfield_intervals(bf: &[u8]) -> Vec<[u64; 2]> {
    let mut out: Vec<[u64; 2]> = vec![];
    let mut cur: Option<u64> = None;
    let nbits = bf.len() as u64 * 8;
    for i in 0..nbits {
        let set = bf[(i / 8) as usize] & (1 << (i % 8)) != 0;
        match (set, cur) {
            (true, None) => cur = Some(i),
            (false, Some(s)) => {
                out.push([s, i]);
                cur = None;
            }
            _ => {}
        }
    }
    if let Some(s) = cur {
        out.push([s, nbits]);
    }
    out
}

fn slot_json(s: &SlotRec) -> Value {
    if !s.ok {
        return json!({"st":"bad","bit":0,"tlen":0,"contig":0,"sec":false,"fork":0});
    }
    let sec = matches!(s.fields.get("secret64"), Some(Val::B(b)) if !b.is_empty());
    json!({"st":"ok","bit":s.bit,"tlen":fu(&s.fields,"length"),"contig":fu(&s.fields,"contiguous"),
           "fork":fu(&s.fields,"fork"),"sec":sec})
}

fn entry_json(e: &EntryRec) -> Value {
    let hasup = e.flags & 4 != 0;
    let hasbf = e.flags & 8 != 0;
    let nodes: Vec<Value> = match e.fields.get("nodes") {
        // (the reader does not need them; long lists are left out of the trace)
        Some(Val::L(v)) if v.len() <= 64 => v.iter().map(|n| json!([fu(n, "index"), fu(n, "size")])).collect(),
        _ => vec![],
    };
    json!({
        "bit": e.bit, "partial": e.partial, "flags": e.flags, "nodes": nodes,
        "hasup": hasup,
        "up": if hasup { json!({"fork":fu(&e.fields,"fork"),"anc":fu(&e.fields,"ancestors"),"len":fu(&e.fields,"length")}) }
              else { json!({"fork":0,"anc":0,"len":0}) },
        "hasbf": hasbf,
        "bf": if hasbf { json!({"drop":matches!(e.fields.get("drop"),Some(Val::Bool(true))),"start":fu(&e.fields,"start"),"n":fu(&e.fields,"n")}) }
              else { json!({"drop":false,"start":0,"n":0}) },
    })
}

/// What a reader that knows only the layout sees in the four stores (C06), as records for TLC.
/// Also re-encodes every decoded frame through the templates and counts frames whose bytes differ.
pub fn decode_stores(l: &Layout, img: &Images) -> Value {
    let oplog = &img[3];
    let slots = [decode_slot(l, oplog, 0), decode_slot(l, oplog, 1)];
    let entries = decode_entries(l, oplog);
    let mut reenc_bad = 0;
    for s in &slots {
        if s.ok {
            let mut out = vec![];
            l.enc(l.t("header"), &s.fields, &mut out);
            if out != s.payload {
                reenc_bad += 1;
            }
        }
    }
    let mut off = l.num("entries_offset") as usize;
    for e in &entries {
        let payload = l.entry_enc(&e.fields);
        let framed = l.frame(&payload, e.partial, e.bit);
        if oplog[off..off + e.size] != framed[..] {
            reenc_bad += 1;
        }
        off += e.size;
    }
    let node_size = l.num("node_size") as usize;
    json!({
        "slots": [slot_json(&slots[0]), slot_json(&slots[1])],
        "entries": entries.iter().map(entry_json).collect::<Vec<_>>(),
        "bf": bitfield_intervals(&img[2]),
        "tree_records": img[0].len() / node_size,
        "tree_tail": img[0].len() % node_size,
        "data_len": img[1].len(),
        "oplog_len": oplog.len(),
        "reenc_bad": reenc_bad,
    })
}

// ---------------------------------------------------------------------------
// C05: reference values of tree nodes, tree hash, signable

pub struct RefTree {
    /// (size, hash) of every full node, by flat-tree index
    pub nodes: std::collections::HashMap<u64, (u64, Vec<u8>)>,
    pub roots: Vec<u64>,
}

pub fn ref_tree(l: &Layout, blocks: &[Vec<u8>]) -> Option<RefTree> {
    let shape = l.shape(blocks.len() as u64)?;
    let mut nodes = std::collections::HashMap::new();
    for row in shape["nodes"].as_array().unwrap() {
        let i = row[0].as_u64().unwrap();
        let depth = row[1].as_u64().unwrap();
        let mut f = Fields::new();
        let mut out = vec![];
        if depth == 0 {
            let b = &blocks[(i / 2) as usize];
            f.insert("size".into(), Val::U(b.len() as u64));
            f.insert("data".into(), Val::B(b.clone()));
            l.enc(l.t("leaf"), &f, &mut out);
            nodes.insert(i, (b.len() as u64, out));
        } else {
            let (ls, lh): &(u64, Vec<u8>) = &nodes[&(row[2].as_u64().unwrap())];
            let (rs, rh): &(u64, Vec<u8>) = &nodes[&(row[3].as_u64().unwrap())];
            f.insert("size".into(), Val::U(ls + rs));
            f.insert("left".into(), Val::B(lh.clone()));
            f.insert("right".into(), Val::B(rh.clone()));
            l.enc(l.t("parent"), &f, &mut out);
            nodes.insert(i, (ls + rs, out));
        }
    }
    let roots = shape["roots"].as_array().unwrap().iter().map(|r| r.as_u64().unwrap()).collect();
    Some(RefTree { nodes, roots })
}

pub fn ref_tree_hash(l: &Layout, t: &RefTree) -> Vec<u8> {
    let mut f = Fields::new();
    let roots: Vec<Fields> = t
        .roots
        .iter()
        .map(|r| {
            let mut x = Fields::new();
            x.insert("hash".into(), Val::B(t.nodes[r].1.clone()));
            x.insert("index".into(), Val::U(*r));
            x.insert("size".into(), Val::U(t.nodes[r].0));
            x
        })
        .collect();
    f.insert("roots".into(), Val::L(roots));
    let mut out = vec![];
    l.enc(l.t("tree"), &f, &mut out);
    out
}

pub fn ref_signable(l: &Layout, tree_hash: &[u8], length: u64, fork: u64) -> Vec<u8> {
    let mut ns = vec![];
    l.enc(l.t("namespace"), &Fields::new(), &mut ns);
    let mut f = Fields::new();
    f.insert("namespace".into(), Val::B(ns));
    f.insert("treehash".into(), Val::B(tree_hash.to_vec()));
    f.insert("length".into(), Val::U(length));
    f.insert("fork".into(), Val::U(fork));
    let mut out = vec![];
    l.enc(l.t("signable"), &f, &mut out);
    out
}

pub fn verify_sig(public: &[u8; 32], msg: &[u8], sig: &[u8]) -> bool {
    let vk = match VerifyingKey::from_bytes(public) {
        Ok(v) => v,
        Err(_) => return false,
    };
    match Signature::from_slice(sig) {
        Ok(s) => vk.verify(msg, &s).is_ok(),
        Err(_) => false,
    }
}

pub fn sign_ref(msg: &[u8]) -> Vec<u8> {
    SigningKey::from_bytes(&TEST_SECRET_KEY_BYTES).sign(msg).to_bytes().to_vec()
}

/// Node (size, hash) as the stores present it: tree store record, overridden by the nodes carried
/// in accepted unflushed entries (what a layout-only reader would use).
pub fn stored_nodes(l: &Layout, img: &Images) -> std::collections::HashMap<u64, (u64, Vec<u8>)> {
    let mut m = std::collections::HashMap::new();
    let ns = l.num("node_size") as usize;
    for (i, rec) in img[0].chunks(ns).enumerate() {
        if rec.len() == ns {
            let mut f = Fields::new();
            if l.dec(l.t("node_record"), rec, &mut f).is_some() {
                let h = fb(&f, "hash").to_vec();
                if h.iter().any(|b| *b != 0) || fu(&f, "size") != 0 {
                    m.insert(i as u64, (fu(&f, "size"), h));
                }
            }
        }
    }
    for e in decode_entries(l, &img[3]) {
        if let Some(Val::L(v)) = e.fields.get("nodes") {
            for n in v {
                m.insert(fu(n, "index"), (fu(n, "size"), fb(n, "hash").to_vec()));
            }
        }
    }
    m
}

/// The header a reader would use, with the tree upgrade of the last accepted entry applied.
pub fn current_tree_claim(l: &Layout, img: &Images) -> Option<(u64, Vec<u8>)> {
    let s = [decode_slot(l, &img[3], 0), decode_slot(l, &img[3], 1)];
    let bits = if s[0].ok && s[1].ok {
        [s[0].bit, s[1].bit]
    } else if s[0].ok {
        [s[0].bit, s[0].bit]
    } else if s[1].ok {
        [1 - s[1].bit, s[1].bit]
    } else {
        return None;
    };
    let h = if bits[0] == bits[1] { &s[0] } else { &s[1] };
    let cur = (bits[0] != bits[1]) as u64;
    let mut len = fu(&h.fields, "length");
    let mut sig = fb(&h.fields, "signature").to_vec();
    for e in decode_entries(l, &img[3]) {
        if e.bit != cur {
            break;
        }
        if e.flags & 4 != 0 {
            len = fu(&e.fields, "length");
            sig = fb(&e.fields, "signature").to_vec();
        }
    }
    Some((len, sig))
}
