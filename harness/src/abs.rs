//! Driver for single-core histories (C01, C02, C07, C08, C10, C12, C13): generates operation
//! lists, executes them on the real crate over a `VDisk`, and records the main line plus, at
//! every storage-operation boundary of every call, the side branches "crashed here", "crashed
//! here tearing the write in flight", "this operation failed" — each with what reopening shows
//! and with a continuation. The recorded tree is linearised depth first with push/pop markers.
use crate::core::*;
use crate::rec::Rec;
use crate::vstore::*;
use rand::rngs::StdRng;
use rand::{Rng, SeedableRng};
use serde_json::{json, Value};

#[derive(Clone, Debug)]
pub enum Op {
    Append(Vec<u8>),
    Batch(Vec<Vec<u8>>),
    Clear(u64, u64),
    Get(u64),
    Reopen,
    Mro,
    Sub,
    /// try to open the existing storage while also supplying a key pair (must be refused)
    OpenKp,
    /// open the existing storage through the create-or-open path (no open(true)), supplying
    /// no key pair (0), the stored one (1) or an unrelated one (2): the stored key and
    /// writability must win
    ReopenKp(u8),
    /// apply a proof (honest or altered) received from a peer; meta is the logged description
    Proof {
        proof: Box<hypercore::Proof>,
        meta: Value,
    },
}

pub fn op_json(op: &Op) -> Value {
    match op {
        Op::Append(b) => json!({"o":"append","runs":runs_of(&[b.clone()]),"single":true}),
        Op::Batch(bs) => json!({"o":"append","runs":runs_of(bs),"single":false}),
        Op::Clear(s, e) => json!({"o":"clear","s":s,"e":e}),
        Op::Get(i) => {
            let (i, bi) = idx_json(*i);
            json!({"o":"get","i":i,"bi":bi})
        }
        Op::Reopen => json!({"o":"reopen"}),
        Op::Mro => json!({"o":"mro"}),
        Op::Sub => json!({"o":"sub"}),
        Op::OpenKp => json!({"o":"openkp"}),
        Op::ReopenKp(k) => json!({"o":"reopen","via":"create-path","kp":k}),
        Op::Proof { meta, .. } => meta.clone(),
    }
}

/// Execute one operation; returns the logged result.
pub fn exec(core: &mut Core, op: &Op) -> Value {
    match op {
        Op::Append(b) => core.append_single(b),
        Op::Batch(bs) => core.append_batch(bs),
        Op::Clear(s, e) => core.clear(*s, *e),
        Op::Get(i) => core.get(*i),
        Op::Reopen => match core.reopen() {
            OpenResult::Ok => json!({"t":"ok"}),
            OpenResult::Empty => json!({"t":"err","kind":"EmptyStorage"}),
            OpenResult::Err(e) => e,
        },
        Op::Mro => core.make_read_only(),
        Op::Sub => {
            core.subscribe();
            json!({"t":"ok"})
        }
        Op::OpenKp => core.open_with_key_pair(),
        Op::ReopenKp(k) => match core.reopen_create_path(*k) {
            OpenResult::Ok => json!({"t":"ok"}),
            OpenResult::Empty => json!({"t":"err","kind":"EmptyStorage"}),
            OpenResult::Err(e) => e,
        },
        Op::Proof { proof, .. } => core.apply_proof(proof),
    }
}

/// Which stores contain any 8-byte window of the secret key (raw byte scan).
pub fn leak_scan(img: &Images) -> Value {
    let total: usize = img.iter().map(|v| v.len()).sum();
    if total > (4 << 20) {
        return json!(["skipped"]);
    }
    let mut out: Vec<&str> = vec![];
    for (si, v) in img.iter().enumerate() {
        let mut found = false;
        if v.len() >= 8 {
            'w: for w in 0..=(32 - 8) {
                let pat = &TEST_SECRET_KEY_BYTES[w..w + 8];
                // cheap pre-filter on the first byte
                let mut i = 0;
                while i + 8 <= v.len() {
                    if v[i] == pat[0] && &v[i..i + 8] == pat {
                        found = true;
                        break 'w;
                    }
                    i += 1;
                }
            }
        }
        if found {
            out.push(STORES[si]);
        }
    }
    json!(out)
}

#[derive(Clone, Debug)]
pub struct FaultCfg {
    pub crash: bool,
    pub torn: bool,
    pub ioerr: bool,
    /// how many levels of crashes inside continuations
    pub depth: u32,
    /// run a continuation after every recovered state (otherwise equal views are grouped)
    pub cont: bool,
    /// upper bound of enumerated points per call (0 = all); larger calls are sampled evenly
    pub max_points: usize,
}

#[derive(Clone)]
pub enum Start {
    Create,
    Images(Images),
}

/// Where an instance came from and what has been done to it: enough to re-execute it.
#[derive(Clone)]
pub struct Lineage {
    pub start: Start,
    pub ops: Vec<Op>,
}

pub fn open_json(r: &OpenResult) -> Value {
    match r {
        OpenResult::Ok => json!({"t":"ok"}),
        OpenResult::Empty => json!({"t":"empty"}),
        OpenResult::Err(e) => e.clone(),
    }
}

fn start_core(start: &Start, id: &str) -> (Core, OpenResult) {
    match start {
        Start::Create => Core::create(id, VDisk::new(), test_key_pair()),
        Start::Images(img) => Core::open(id, VDisk::from_images(img.clone())),
    }
}

/// byte positions at which a write of `n` bytes is torn
pub fn cuts_for(n: usize, rng: &mut StdRng, is_oplog: bool) -> Vec<usize> {
    let mut cuts: Vec<usize> = vec![];
    if n <= 1 {
        return vec![0].into_iter().filter(|c| *c < n).collect();
    }
    if n <= 64 {
        cuts.extend(0..n);
    } else {
        cuts.extend([0, 1, 3, 4, 5, 7, 8, 9, 12, 16, 40, 41, 72, 73, n - 1, n - 2, n / 2]);
        let mut s = 512;
        while s < n {
            cuts.push(s);
            s += 512;
        }
        if n > 4095 {
            cuts.push(4095);
        }
        let extra = if is_oplog { 8 } else { 3 };
        for _ in 0..extra {
            cuts.push(rng.gen_range(1..n));
        }
    }
    cuts.sort();
    cuts.dedup();
    cuts.retain(|c| *c < n);
    cuts
}

fn sample_points(all: Vec<usize>, max: usize) -> Vec<usize> {
    if max == 0 || all.len() <= max {
        return all;
    }
    let mut out = vec![];
    let n = all.len();
    for i in 0..max {
        out.push(all[i * (n - 1) / (max - 1)]);
    }
    out.dedup();
    out
}

pub struct Driver {
    pub rec: Rec,
    pub rng: StdRng,
    pub suffix_salt: u64,
    /// id of the core whose faults are being enumerated
    pub cid: String,
}

impl Driver {
    fn suffix_ops(&mut self, len_hint: u64) -> Vec<Op> {
        self.suffix_salt += 1;
        let b: Vec<u8> = (0..(1 + self.suffix_salt % 3))
            .map(|i| (self.suffix_salt as u8).wrapping_mul(17).wrapping_add(i as u8))
            .collect();
        let mut v = vec![Op::Append(b)];
        if self.suffix_salt % 2 == 0 {
            v.push(Op::Reopen);
            v.push(Op::Batch(vec![vec![1, 2], vec![]]));
        } else {
            // clear(start, end) is only defined for start < length; a sparse replica cannot in
            // general compute the byte range of blocks it does not hold, so no clear there
            if len_hint > 0 && self.cid != "r" {
                v.push(Op::Clear(0, 1));
            }
            v.push(Op::Reopen);
        }
        if len_hint > 0 {
            v.push(Op::Get(len_hint - 1));
        }
        v
    }

    /// Open a core on `img`, emit the branch event `kind`, run a continuation, close the branch.
    #[allow(clippy::too_many_arguments)]
    fn branch(
        &mut self,
        kind: &str,
        opj: &Value,
        extra: Value,
        img: Images,
        fc: &FaultCfg,
        depth: u32,
        cont: bool,
    ) {
        let mut ev = json!({"e":kind,"c":self.cid,"op":opj});
        for (k, v) in extra.as_object().unwrap() {
            ev[k] = v.clone();
        }
        self.rec.begin(ev.clone());
        let (mut core, res) = Core::open(&self.cid.clone(), VDisk::from_images(img.clone()));
        ev["open"] = open_json(&res);
        if let OpenResult::Ok = res {
            ev["view"] = core.view();
            // C06 at every recovered state: what a JavaScript-layout reader makes of the files the
            // crate has just opened (header in either slot, stale or torn entries behind the cursor)
            if let Some(js) = crate::checks::js_records(&core) {
                ev["js"] = js;
            }
        }
        self.rec.end();
        self.rec.emit(json!({"e":"push"}));
        self.rec.emit(ev);
        if cont {
            if let OpenResult::Ok = res {
                let sfx = self.suffix_ops(core.len());
                let lin = Lineage {
                    start: Start::Images(img),
                    ops: vec![],
                };
                let sub = FaultCfg {
                    ioerr: false,
                    torn: fc.torn && depth > 1,
                    ..fc.clone()
                };
                self.run_ops(&mut core, lin, &sfx, &sub, depth.saturating_sub(1));
            }
        }
        self.rec.emit(json!({"e":"pop"}));
    }

    /// Execute `ops` on `core` (main line), enumerating faults of every call when depth > 0.
    pub fn run_ops(
        &mut self,
        core: &mut Core,
        mut lin: Lineage,
        ops: &[Op],
        fc: &FaultCfg,
        depth: u32,
    ) {
        for op in ops {
            let opj = op_json(op);
            let pre_img = if depth > 0 { Some(core.disk.images()) } else { None };
            let j0 = core.disk.journal_len();
            let o0 = core.disk.ops();
            let mut ev = json!({"e":"op","c":core.id,"op":opj});
            self.rec.begin(ev.clone());
            let ret = exec(core, op);
            let evs = core.drain();
            ev["ret"] = ret.clone();
            ev["ev"] = evs;
            ev["view"] = core.view();
            self.rec.end();
            let jops = core.disk.journal_from(j0);
            ev["jn"] = json!(jops.len());
            ev["jc"] = journal_classes(&jops);
            ev["leak"] = leak_scan(&core.disk.images());
            if let Some(js) = crate::checks::js_records(core) {
                ev["js"] = js;
            }
            if crate::core::CFG.with(|c| c.borrow().dir.as_os_str().len() > 0) {
                ev["img"] = core.image_digest();
            }
            let nops = (core.disk.ops() - o0) as usize;
            self.rec.count("calls", 1);
            self.rec.count("storage_ops", nops as u64);

            if let Some(pre) = pre_img {
                let m = jops.len();
                if fc.crash && m > 0 {
                    // crash after k of the m mutating operations of this call, k = 0..m
                    let ks = sample_points((0..=m).collect(), fc.max_points);
                    let mut groups: Vec<(String, Vec<usize>)> = vec![];
                    for k in ks {
                        let mut img = pre.clone();
                        for o in &jops[..k] {
                            apply(&mut img, o);
                        }
                        self.rec.count("crash_points", 1);
                        if fc.cont {
                            self.branch(
                                "crashopen",
                                &opj,
                                json!({"ks":[k],"m":m,"cut":-1}),
                                img,
                                fc,
                                depth,
                                true,
                            );
                        } else {
                            let key = format!("{:?}", img_fingerprint(&img));
                            if let Some(g) = groups.iter_mut().find(|g| g.0 == key) {
                                g.1.push(k);
                                continue;
                            }
                            groups.push((key, vec![k]));
                            self.branch(
                                "crashopen",
                                &opj,
                                json!({"ks":[k],"m":m,"cut":-1}),
                                img,
                                fc,
                                depth,
                                false,
                            );
                        }
                    }
                }
                if fc.torn && m > 0 {
                    let ks = sample_points((0..m).collect(), fc.max_points);
                    for k in ks {
                        if let JKind::Write { data, .. } = &jops[k].kind {
                            let cuts = cuts_for(data.len(), &mut self.rng, jops[k].store == 3);
                            let mut seen: Vec<String> = vec![];
                            for cut in cuts {
                                let mut img = pre.clone();
                                for o in &jops[..k] {
                                    apply(&mut img, o);
                                }
                                apply_torn(&mut img, &jops[k], cut);
                                self.rec.count("torn_points", 1);
                                let key = format!("{:?}", img_fingerprint(&img));
                                if seen.contains(&key) {
                                    continue;
                                }
                                seen.push(key);
                                // continuation for a few cuts per write only
                                let cont = fc.cont && (cut == 0 || cut % 5 == 1);
                                self.branch(
                                    "crashopen",
                                    &opj,
                                    json!({"ks":[k],"m":m,"cut":cut,"store":STORES[jops[k].store],"wlen":data.len()}),
                                    img,
                                    fc,
                                    depth,
                                    cont,
                                );
                            }
                        }
                    }
                }
                if fc.ioerr && nops > 0 {
                    let js = sample_points((0..nops).collect(), fc.max_points);
                    for j in js {
                        self.ioerr_branch(&lin, op, &opj, j);
                    }
                }
            }
            self.rec.emit(ev);
            lin.ops.push(op.clone());
            if ret["t"] == "noinstance" {
                break;
            }
        }
    }

    /// Re-execute the lineage, fail storage operation number j of `op`, reopen, record.
    fn ioerr_branch(&mut self, lin: &Lineage, op: &Op, opj: &Value, j: usize) {
        let (mut core, res) = start_core(&lin.start, &self.cid.clone());
        if !matches!(res, OpenResult::Ok) {
            return;
        }
        for o in &lin.ops {
            exec(&mut core, o);
            core.drain();
        }
        let at = core.disk.ops() + j as u64;
        core.disk.arm_failure(at);
        let mut ev = json!({"e":"ioerr","c":self.cid,"op":opj,"j":j});
        self.rec.begin(ev.clone());
        let ret = exec(&mut core, op);
        let hit = core.disk.disarm();
        ev["ret"] = ret;
        ev["hit"] = json!(hit);
        // C13: a failed call announces nothing
        ev["ev"] = core.drain();
        // the instance is dropped; the same storage is opened again without faults
        let res = core.reopen();
        ev["open"] = open_json(&res);
        if let OpenResult::Ok = res {
            ev["view"] = core.view();
        }
        self.rec.end();
        if !hit {
            return;
        }
        self.rec.count("ioerr_points", 1);
        self.rec.emit(json!({"e":"push"}));
        self.rec.emit(ev);
        if let OpenResult::Ok = res {
            // the recovered core must stay usable
            let sfx = self.suffix_ops(core.len());
            let none = FaultCfg {
                crash: false,
                torn: false,
                ioerr: false,
                depth: 0,
                cont: false,
                max_points: 0,
            };
            let l2 = Lineage {
                start: Start::Images(core.disk.images()),
                ops: vec![],
            };
            self.run_ops(&mut core, l2, &sfx[..2.min(sfx.len())], &none, 0);
        }
        self.rec.emit(json!({"e":"pop"}));
    }

    /// One complete history starting from the creation of a fresh core.
    pub fn history(&mut self, ops: &[Op], subs: usize, fc: &FaultCfg, gen: Value) {
        self.rec.emit(json!({"e":"reset","gen":gen}));
        self.rec.count("histories", 1);
        let disk = VDisk::new();
        let mut ev = json!({"e":"create","c":"w","key":"k1","writable":true});
        self.rec.begin(ev.clone());
        let (mut core, res) = Core::create("w", disk, test_key_pair());
        if !matches!(res, OpenResult::Ok) {
            ev["open"] = open_json(&res);
            self.rec.end();
            self.rec.emit(ev);
            return;
        }
        ev["view"] = core.view();
        self.rec.end();
        if fc.depth > 0 && fc.crash {
            // crash while the storage is being created
            let jops = core.disk.journal_from(0);
            for k in 0..=jops.len() {
                let mut img: Images = Default::default();
                for o in &jops[..k] {
                    apply(&mut img, o);
                }
                self.crashcreate(img, json!({"ks":[k],"cut":-1}));
                if fc.torn && k < jops.len() {
                    if let JKind::Write { data, .. } = &jops[k].kind {
                        for cut in cuts_for(data.len(), &mut self.rng, true) {
                            let mut img: Images = Default::default();
                            for o in &jops[..k] {
                                apply(&mut img, o);
                            }
                            apply_torn(&mut img, &jops[k], cut);
                            self.crashcreate(img, json!({"ks":[k],"cut":cut}));
                        }
                    }
                }
            }
        }
        self.rec.emit(ev);
        let mut all: Vec<Op> = vec![];
        for _ in 0..subs {
            all.push(Op::Sub);
        }
        all.extend_from_slice(ops);
        let lin = Lineage {
            start: Start::Create,
            ops: vec![],
        };
        self.run_ops(&mut core, lin, &all, fc, fc.depth);
    }

    fn crashcreate(&mut self, img: Images, extra: Value) {
        let mut ev = json!({"e":"crashcreate","c":"w","key":"k1","writable":true});
        for (k, v) in extra.as_object().unwrap() {
            ev[k] = v.clone();
        }
        self.rec.begin(ev.clone());
        let (mut core, res) = Core::open("w", VDisk::from_images(img));
        ev["open"] = open_json(&res);
        if let OpenResult::Ok = res {
            ev["view"] = core.view();
        }
        self.rec.end();
        self.rec.count("crash_points", 1);
        self.rec.emit(json!({"e":"push"}));
        self.rec.emit(ev);
        self.rec.emit(json!({"e":"pop"}));
    }
}

fn img_fingerprint(img: &Images) -> [(usize, u32); 4] {
    [
        (img[0].len(), crc32fast::hash(&img[0])),
        (img[1].len(), crc32fast::hash(&img[1])),
        (img[2].len(), crc32fast::hash(&img[2])),
        (img[3].len(), crc32fast::hash(&img[3])),
    ]
}

// ---------------------------------------------------------------------------
// History generators

#[derive(Clone, Debug)]
pub struct GenCfg {
    pub ops: usize,
    pub max_block: usize,
    pub max_batch: usize,
    pub p_reopen: f64,
    pub p_clear: f64,
    pub p_get: f64,
    pub p_mro: f64,
    pub p_sub: f64,
    pub p_big: f64,
    pub big_sizes: Vec<u64>,
}

fn rand_block(rng: &mut StdRng, max: usize) -> Vec<u8> {
    // log-uniform size, 0 included
    let size = if max == 0 || rng.gen_bool(0.08) {
        0
    } else {
        let bits = rng.gen_range(0..=(usize::BITS - max.leading_zeros()));
        let hi = (1usize << bits).min(max);
        rng.gen_range(0..=hi)
    };
    (0..size).map(|_| rng.gen()).collect()
}

/// Generate the next operation given only the current length and writability.
pub fn gen_op(rng: &mut StdRng, g: &GenCfg, len: u64, writable: bool) -> Op {
    let x: f64 = rng.gen();
    let mut acc = g.p_reopen;
    if x < acc {
        return Op::Reopen;
    }
    acc += g.p_clear;
    if x < acc && len > 0 {
        // cores spanning several bitfield pages: often start exactly at / next to a page edge
        let edges: Vec<u64> = [8191u64, 8192, 8193, 32767, 32768, 32769, 65535, 65536, 65537].iter().copied().filter(|e| *e < len).collect();
        let pages: Vec<u64> = [32768u64, 65536].iter().copied().filter(|e| *e < len).collect();
        let s = if !pages.is_empty() && rng.gen_bool(0.25) {
            pages[rng.gen_range(0..pages.len())] // exactly the first index of a bitfield page
        } else if !edges.is_empty() && rng.gen_bool(0.3) {
            edges[rng.gen_range(0..edges.len())]
        } else {
            rng.gen_range(0..len)
        };
        let e = match rng.gen_range(0..10) {
            0 => len + rng.gen_range(1..40_000),
            1 => len,
            2 => s + 1,
            _ => rng.gen_range(s + 1..=len.max(s + 1)),
        };
        return Op::Clear(s, e.max(s + 1));
    }
    acc += g.p_get;
    if x < acc {
        let i = match rng.gen_range(0..12) {
            0 => len,
            1 => len + 1,
            2 => u64::MAX,
            3 => 1 << 63,
            4 => (1 << 32) + rng.gen_range(0..3),
            5 => len + 32768,
            _ => {
                if len > 0 {
                    rng.gen_range(0..len)
                } else {
                    0
                }
            }
        };
        return Op::Get(i);
    }
    acc += g.p_mro;
    if x < acc {
        return match rng.gen_range(0..8) {
            0 | 1 => Op::OpenKp,
            2 => Op::ReopenKp(rng.gen_range(0..3)),
            _ => Op::Mro,
        };
    }
    acc += g.p_sub;
    if x < acc {
        return Op::Sub;
    }
    acc += g.p_big;
    if x < acc && writable && !g.big_sizes.is_empty() {
        // a large batch of one-byte blocks in runs of equal bytes (run-length friendly)
        let n = g.big_sizes[rng.gen_range(0..g.big_sizes.len())];
        let mut v: Vec<Vec<u8>> = Vec::with_capacity(n as usize);
        let mut left = n;
        while left > 0 {
            let run = rng.gen_range(1..=left.min(9000));
            let byte: u8 = rng.gen();
            for _ in 0..run {
                v.push(vec![byte]);
            }
            left -= run;
        }
        return Op::Batch(v);
    }
    // appends (also on read-only cores: they must be refused)
    if rng.gen_bool(0.5) {
        Op::Append(rand_block(rng, g.max_block))
    } else {
        let n = match rng.gen_range(0..8) {
            0 => 0,
            1 => 1,
            _ => rng.gen_range(2..=g.max_batch.max(2)),
        };
        Op::Batch((0..n).map(|_| rand_block(rng, g.max_block)).collect())
    }
}

/// Generate a history by running it on a scratch core (only `info().length` is consulted).
pub fn gen_history(rng: &mut StdRng, g: &GenCfg) -> Vec<Op> {
    let (mut core, _) = Core::create("w", VDisk::new(), test_key_pair());
    let mut ops = vec![];
    for _ in 0..g.ops {
        let (len, w) = match core.hc.as_ref() {
            Some(h) => (h.info().length, h.info().writeable),
            None => break,
        };
        let op = gen_op(rng, g, len, w);
        exec(&mut core, &op);
        ops.push(op);
    }
    ops
}

/// Class of a journal operation in terms of the program counter labels of spec/HcStore.tla.
fn jclass(op: &JOp, hdr_seen: &mut u32, trunc_seen: &mut u32) -> String {
    match (op.store, &op.kind) {
        (1, JKind::Write { .. }) => "a_data".into(),
        (1, JKind::Del { .. }) => "c_del".into(),
        (2, _) => "f_pages".into(),
        (0, _) => "f_nodes".into(),
        (3, JKind::Write { off, .. }) if *off >= 8192 => "entry".into(),
        (3, JKind::Write { .. }) => {
            *hdr_seen += 1;
            if *hdr_seen == 1 { "f_hdr".into() } else { "f_hdr2".into() }
        }
        (3, JKind::Trunc { .. }) => {
            *trunc_seen += 1;
            if *trunc_seen == 1 { "f_trunc".into() } else { "f_trunc2".into() }
        }
        _ => "other".into(),
    }
}

/// The journal of one call as operation classes (spec/StoreOrder.tla)
pub fn journal_classes(jops: &[JOp]) -> Value {
    let (mut h, mut t) = (0, 0);
    let mut out: Vec<String> = vec![];
    for o in jops {
        let c = jclass(o, &mut h, &mut t);
        // the envelope is blind to how many pages or nodes one flush writes: a run of them is
        // recorded once (a bulk append flushes tens of thousands of nodes)
        if (c == "f_pages" || c == "f_nodes") && out.last() == Some(&c) {
            continue;
        }
        out.push(c);
    }
    json!(out)
}

/// Number of journal operations that precede program counter `pc` of spec/HcStore.tla: the
/// operations of all earlier phases.  (A phase may be empty in the real call - an empty core has
/// no page or node to flush - so the position is found by phase order, not by looking for an
/// operation of that very class.)
pub fn prefix_for_pc(jops: &[JOp], pc: &str) -> usize {
    fn rank(c: &str) -> usize {
        match c {
            "a_data" => 0,
            "entry" | "a_entry" | "c_entry" => 1,
            "a_commit" => 2,
            "c_del" => 2,
            "f_pages" => 3,
            "f_nodes" => 4,
            "f_hdr" => 5,
            "f_trunc" => 6,
            "f_hdr2" => 7,
            "f_trunc2" => 8,
            _ => 9, // "ret", "idle": the call has issued all its operations
        }
    }
    let (mut h, mut t) = (0, 0);
    let want = rank(pc);
    for (k, o) in jops.iter().enumerate() {
        if rank(&jclass(o, &mut h, &mut t)) >= want {
            return k;
        }
    }
    jops.len()
}

impl Driver {
    /// Replay one behaviour exported by TLC from spec/HcStore.tla (DESIGN 3.4): the main line
    /// follows the behaviour including its crashes; every call additionally gets the full
    /// fault enumeration as side branches.
    pub fn behaviour(&mut self, hist: &Value, fc: &FaultCfg, gen: Value) {
        self.rec.emit(json!({"e":"reset","gen":gen}));
        self.rec.count("histories", 1);
        let mut ev = json!({"e":"create","c":"w","key":"k1","writable":true});
        let (mut core, res) = Core::create("w", VDisk::new(), test_key_pair());
        if !matches!(res, OpenResult::Ok) {
            return;
        }
        ev["view"] = core.view();
        self.rec.emit(ev);
        let mut lin = Lineage { start: Start::Create, ops: vec![] };
        let steps = hist.as_array().unwrap();
        let mut salt: u8 = 0;
        let mut i = 0;
        while i < steps.len() {
            let st = steps[i].as_array().unwrap();
            let name = st[0].as_str().unwrap();
            let op = match name {
                "append" => {
                    let n = st[1].as_u64().unwrap();
                    Some(Op::Batch((0..n).map(|k| { salt = salt.wrapping_add(1); vec![salt, k as u8] }).collect()))
                }
                "clear" => Some(Op::Clear(st[1].as_u64().unwrap(), st[2].as_u64().unwrap())),
                "mro" => Some(Op::Mro),
                "close" => None,
                "open" => {
                    // a reopen after close (after a crash the crashopen event has already opened)
                    if i > 0 && steps[i - 1][0] == "close" { Some(Op::Reopen) } else { None }
                }
                _ => None,
            };
            let next = steps.get(i + 1).map(|s| s[0].as_str().unwrap().to_string());
            if let Some(op) = op {
                if matches!(next.as_deref(), Some("crash") | Some("torn")) {
                    let pc = steps[i + 1][1].as_str().unwrap().to_string();
                    let torn = next.as_deref() == Some("torn");
                    let opj = op_json(&op);
                    let pre = core.disk.images();
                    let j0 = core.disk.journal_len();
                    exec(&mut core, &op);
                    let jops = core.disk.journal_from(j0);
                    let k = prefix_for_pc(&jops, &pc);
                    let mut img = pre;
                    for o in &jops[..k] {
                        apply(&mut img, o);
                    }
                    let mut cut: i64 = -1;
                    if torn && k < jops.len() {
                        if let JKind::Write { data, .. } = &jops[k].kind {
                            // inside the framed payload: the model's torn write is one that
                            // damages the unit (a cut in trailing zero padding would complete it)
                            cut = (data.len() / 2).min(40) as i64;
                            apply_torn(&mut img, &jops[k], cut as usize);
                        }
                    }
                    let mut ev = json!({"e":"crashopen","c":"w","op":opj,"ks":[k],"m":jops.len(),"cut":cut,"pc":pc});
                    let (c2, res) = Core::open("w", VDisk::from_images(img.clone()));
                    core = c2;
                    ev["open"] = open_json(&res);
                    if let OpenResult::Ok = res {
                        ev["view"] = core.view();
                    }
                    self.rec.count("crash_points", 1);
                    self.rec.emit(ev);
                    if !matches!(res, OpenResult::Ok) {
                        return;
                    }
                    lin = Lineage { start: Start::Images(img), ops: vec![] };
                    i += 2;
                    continue;
                }
                self.run_ops(&mut core, lin.clone(), &[op.clone()], fc, fc.depth);
                lin.ops.push(op);
            }
            i += 1;
        }
    }
}

pub fn run_replay(args: &[String]) {
    let mut input = String::new();
    let mut out = "trace.ndjson".to_string();
    let mut faults = "crash".to_string();
    let mut only: Option<usize> = None;
    let mut i = 0;
    while i < args.len() {
        let v = args.get(i + 1).cloned().unwrap_or_default();
        match args[i].as_str() {
            "--in" => input = v,
            "--out" => out = v,
            "--faults" => faults = v,
            "--only" => only = Some(v.parse().unwrap()),
            x => panic!("unknown argument {x}"),
        }
        i += 2;
    }
    let fc = FaultCfg {
        crash: faults.contains("crash"),
        torn: faults.contains("torn"),
        ioerr: false,
        depth: 1,
        cont: true,
        max_points: 0,
    };
    let rec = Rec::new(&out, 90);
    let mut d = Driver { rec: rec.clone(), rng: StdRng::seed_from_u64(7), suffix_salt: 7, cid: "w".into() };
    let text = std::fs::read_to_string(&input).unwrap();
    for (n, line) in text.lines().enumerate() {
        if line.trim().is_empty() || (only.is_some() && only != Some(n)) {
            continue;
        }
        let hist: Value = serde_json::from_str(line).unwrap();
        let gen = json!({"drv":"abs","hist":hist.clone(),"args":format!("replay --in {input} --faults {faults} --only {n}")});
        d.behaviour(&hist, &fc, gen);
    }
    rec.finish();
}

/// Replay paths exported by TLC from spec/Bitfield.tla (one per reachable state of the paged
/// bitfield model) on a real writer.  A model index stands for a range of real indices: with
/// `page_bits` 2, bit 0 of page p is [p*32768, p*32768+32767) and bit 1 the last index of the
/// page; with 4, the bits are the first index, the second up to the last but two, and the last
/// two.  Every model bit is appended as one run of identical one-byte blocks of its own.
pub fn run_bfreplay(args: &[String]) {
    let get = |name: &str, d: &str| args.iter().position(|a| a == name).and_then(|i| args.get(i + 1).cloned()).unwrap_or_else(|| d.to_string());
    let input = get("--in", "");
    let out = get("--out", "trace.ndjson");
    let pb: u64 = get("--page-bits", "2").parse().unwrap();
    let only: Option<usize> = args.iter().position(|a| a == "--only").and_then(|i| args.get(i + 1).and_then(|v| v.parse().ok()));
    let cuts: Vec<u64> = if pb == 2 { vec![0, 32767] } else { vec![0, 1, 32766, 32767] };
    let real = |l: u64| (l / pb) * 32768 + cuts[(l % pb) as usize];
    let rec = Rec::new(&out, 240);
    let mut d = Driver { rec: rec.clone(), rng: StdRng::seed_from_u64(11), suffix_salt: 11, cid: "w".into() };
    let text = std::fs::read_to_string(&input).unwrap();
    for (n, line) in text.lines().enumerate() {
        if line.trim().is_empty() || (only.is_some() && only != Some(n)) {
            continue;
        }
        let hist: Value = serde_json::from_str(line).unwrap();
        let steps = hist.as_array().unwrap();
        let mut ops: Vec<Op> = vec![];
        for (i, st) in steps.iter().enumerate() {
            match st[0].as_str().unwrap() {
                "append" => {
                    let (len, k) = (st[1].as_u64().unwrap(), st[2].as_u64().unwrap());
                    let mut blocks: Vec<Vec<u8>> = vec![];
                    for m in len..len + k {
                        for _ in real(m)..real(m + 1) {
                            blocks.push(vec![m as u8 + 1]);
                        }
                    }
                    ops.push(Op::Batch(blocks));
                }
                "clear" => ops.push(Op::Clear(real(st[1].as_u64().unwrap()), real(st[2].as_u64().unwrap()))),
                "open" => {
                    if i > 0 && steps[i - 1][0] == "close" {
                        ops.push(Op::Reopen);
                    }
                }
                _ => {}
            }
        }
        let gen = json!({"drv":"abs","hist":hist.clone(),"args":format!("bfreplay --in {input} --page-bits {pb} --only {n}")});
        d.history(&ops, 0, &FaultCfg::none(), gen);
    }
    rec.finish();
}

pub fn profile(name: &str, ops: usize) -> GenCfg {
    match name {
        // short histories over a small alphabet, for exhaustive fault enumeration
        "small" => GenCfg {
            ops,
            max_block: 3,
            max_batch: 3,
            p_reopen: 0.14,
            p_clear: 0.16,
            p_get: 0.08,
            p_mro: 0.0,
            p_sub: 0.02,
            p_big: 0.0,
            big_sizes: vec![],
        },
        "mro" => GenCfg {
            ops,
            max_block: 3,
            max_batch: 3,
            p_reopen: 0.12,
            p_clear: 0.12,
            p_get: 0.06,
            p_mro: 0.12,
            p_sub: 0.02,
            p_big: 0.0,
            big_sizes: vec![],
        },
        // long random histories with blocks up to 8 KiB
        "long" => GenCfg {
            ops,
            max_block: 8192,
            max_batch: 24,
            p_reopen: 0.16,
            p_clear: 0.12,
            p_get: 0.10,
            p_mro: 0.002,
            p_sub: 0.01,
            p_big: 0.0,
            big_sizes: vec![],
        },
        // cores spanning several bitfield pages
        "large" => GenCfg {
            ops,
            max_block: 4,
            max_batch: 6,
            p_reopen: 0.2,
            p_clear: 0.2,
            p_get: 0.08,
            p_mro: 0.0,
            p_sub: 0.0,
            p_big: 0.2,
            big_sizes: vec![8191, 8192, 8193, 32767, 32768, 32769, 65535, 65537, 70000, 24000],
        },
        _ => panic!("unknown profile {name}"),
    }
}

pub fn run(args: &[String]) {
    let mut seed = 1u64;
    let mut runs = 10usize;
    let mut ops = 10usize;
    let mut prof = "small".to_string();
    let mut out = "trace.ndjson".to_string();
    let mut faults = String::new();
    let mut depth = 0u32;
    let mut cont = false;
    let mut subs = 1usize;
    let mut max_points = 0usize;
    let mut only: Option<usize> = None;
    let mut i = 0;
    while i < args.len() {
        let v = args.get(i + 1).cloned().unwrap_or_default();
        match args[i].as_str() {
            "--seed" => seed = v.parse().unwrap(),
            "--runs" => runs = v.parse().unwrap(),
            "--ops" => ops = v.parse().unwrap(),
            "--profile" => prof = v,
            "--out" => out = v,
            "--faults" => faults = v,
            "--depth" => depth = v.parse().unwrap(),
            "--cont" => cont = v == "1",
            "--subs" => subs = v.parse().unwrap(),
            "--max-points" => max_points = v.parse().unwrap(),
            "--only" => only = Some(v.parse().unwrap()),
            x => panic!("unknown argument {x}"),
        }
        i += 2;
    }
    let fc = FaultCfg {
        crash: faults.contains("crash"),
        torn: faults.contains("torn"),
        ioerr: faults.contains("ioerr"),
        depth,
        cont,
        max_points,
    };
    let rec = Rec::new(&out, 90);
    let mut d = Driver {
        rec: rec.clone(),
        rng: StdRng::seed_from_u64(seed ^ 0x5eed),
        suffix_salt: seed,
        cid: "w".into(),
    };
    let g = profile(&prof, ops);
    for r in 0..runs {
        let mut rng = StdRng::seed_from_u64(seed.wrapping_mul(1_000_003).wrapping_add(r as u64));
        let mut gg = g.clone();
        // vary the length so that every phase of the flush cadence is met
        gg.ops = 1 + rng.gen_range(ops / 2..=ops);
        if only.is_some() && only != Some(r) {
            continue;
        }
        let h = gen_history(&mut rng, &gg);
        let s = if subs == 0 { 0 } else { 1 + (r % subs) };
        let gen = json!({"drv":"abs","seed":seed,"r":r,"runs":runs,"ops":ops,"profile":prof,
            "faults":faults,"depth":depth,"cont":cont,"subs":subs,"max_points":max_points});
        d.history(&h, s, &fc, gen);
    }
    rec.finish();
}
