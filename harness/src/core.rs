//! Thin wrapper around a real `Hypercore` on a `VDisk`: executes operations under
//! `catch_unwind`, drains subscribers, and projects the observable state through the public API.
//! Nothing here knows what hypercore *should* do.
use crate::vstore::VDisk;
use async_broadcast::Receiver;
use ed25519_dalek::{SigningKey, VerifyingKey};
use futures::executor::block_on;
use hypercore::replication::Event;
use hypercore::{Hypercore, HypercoreBuilder, HypercoreError, PartialKeypair};
use rand::rngs::StdRng;
use rand::{Rng, SeedableRng};
use serde_json::{json, Value};
use std::panic::{catch_unwind, AssertUnwindSafe};

pub const TEST_PUBLIC_KEY_BYTES: [u8; 32] = [
    0x97, 0x60, 0x6c, 0xaa, 0xd2, 0xb0, 0x8c, 0x1d, 0x5f, 0xe1, 0x64, 0x2e, 0xee, 0xa5, 0x62, 0xcb,
    0x91, 0xd6, 0x55, 0xe2, 0x00, 0xc8, 0xd4, 0x3a, 0x32, 0x09, 0x1d, 0x06, 0x4a, 0x33, 0x1e, 0xe3,
];
pub const TEST_SECRET_KEY_BYTES: [u8; 32] = [
    0x27, 0xe6, 0x74, 0x25, 0xc1, 0xff, 0xd1, 0xd9, 0xee, 0x62, 0x5c, 0x96, 0x2b, 0x57, 0x13, 0xc3,
    0x51, 0x0b, 0x71, 0x14, 0x15, 0xf3, 0x31, 0xf6, 0xfa, 0x9e, 0xf2, 0xbf, 0x23, 0x5f, 0x2f, 0xfe,
];

pub fn test_key_pair() -> PartialKeypair {
    let public = VerifyingKey::from_bytes(&TEST_PUBLIC_KEY_BYTES).unwrap();
    let signing_key = SigningKey::from_bytes(&TEST_SECRET_KEY_BYTES);
    PartialKeypair {
        public,
        secret: Some(signing_key),
    }
}

/// A second, unrelated key pair (derived from a fixed seed).
pub fn other_key_pair(n: u8) -> PartialKeypair {
    let mut seed = [0u8; 32];
    for (i, b) in seed.iter_mut().enumerate() {
        *b = (i as u8).wrapping_mul(7).wrapping_add(n).wrapping_add(13);
    }
    let signing_key = SigningKey::from_bytes(&seed);
    PartialKeypair {
        public: signing_key.verifying_key(),
        secret: Some(signing_key),
    }
}

pub fn key_id(public: &VerifyingKey) -> String {
    let b = public.to_bytes();
    if b == TEST_PUBLIC_KEY_BYTES {
        "k1".to_string()
    } else {
        format!("k{:02x}{:02x}{:02x}", b[0], b[1], b[2])
    }
}

pub fn cid(data: &[u8]) -> u64 {
    (crc32fast::hash(data) & 0x7fff_ffff) as u64
}

/// Index as (small int or -1, decimal string when it does not fit 31 bits)
pub fn idx_json(i: u64) -> (i64, String) {
    if i < (1u64 << 31) {
        (i as i64, String::new())
    } else {
        (-1, i.to_string())
    }
}

pub fn err_kind(e: &HypercoreError) -> &'static str {
    match e {
        HypercoreError::BadArgument { .. } => "BadArgument",
        HypercoreError::NotWritable => "NotWritable",
        HypercoreError::InvalidSignature { .. } => "InvalidSignature",
        HypercoreError::InvalidChecksum { .. } => "InvalidChecksum",
        HypercoreError::EmptyStorage { .. } => "EmptyStorage",
        HypercoreError::CorruptStorage { .. } => "CorruptStorage",
        HypercoreError::InvalidOperation { .. } => "InvalidOperation",
        HypercoreError::IO { .. } => "IO",
    }
}

pub fn err_json(e: &HypercoreError) -> Value {
    let mut msg = format!("{e}");
    msg.truncate(160);
    json!({"t":"err","kind":err_kind(e),"msg":msg})
}

pub fn panic_json(p: Box<dyn std::any::Any + Send>) -> Value {
    let mut msg = if let Some(s) = p.downcast_ref::<&str>() {
        s.to_string()
    } else if let Some(s) = p.downcast_ref::<String>() {
        s.clone()
    } else {
        "?".to_string()
    };
    msg.truncate(160);
    json!({"t":"panic","msg":msg})
}

/// Run-length form of a batch: [[n,size,cid],...]
pub fn runs_of(batch: &[Vec<u8>]) -> Value {
    let mut runs: Vec<(u64, u64, u64)> = vec![];
    for b in batch {
        let (s, c) = (b.len() as u64, cid(b));
        if let Some(last) = runs.last_mut() {
            if last.1 == s && last.2 == c {
                last.0 += 1;
                continue;
            }
        }
        runs.push((1, s, c));
    }
    Value::Array(runs.iter().map(|r| json!([r.0, r.1, r.2])).collect())
}

/// Storage backend / node cache configuration for cores created from now on (C14 matrix)
#[derive(Clone, Debug, Default)]
pub struct CoreCfg {
    /// 0: instrumented VDisk, 1: RandomAccessMemory, 2: RandomAccessDisk
    pub backend: u8,
    /// 0: no node cache, 1: default cache, 2: cache of a few nodes
    pub cache: u8,
    pub dir: std::path::PathBuf,
    pub counter: u64,
}
thread_local! {
    pub static CFG: std::cell::RefCell<CoreCfg> = std::cell::RefCell::new(CoreCfg::default());
}

pub type MemStores = std::sync::Arc<Vec<std::sync::Arc<futures::lock::Mutex<random_access_memory::RandomAccessMemory>>>>;

#[derive(Clone, Debug)]
pub enum Alt {
    Mem(MemStores),
    Disk(std::path::PathBuf),
}

#[derive(Debug)]
struct MemHandle(std::sync::Arc<futures::lock::Mutex<random_access_memory::RandomAccessMemory>>);

#[async_trait::async_trait]
impl random_access_storage::RandomAccess for MemHandle {
    async fn write(&mut self, offset: u64, data: &[u8]) -> Result<(), random_access_storage::RandomAccessError> {
        self.0.lock().await.write(offset, data).await
    }
    async fn read(&mut self, offset: u64, length: u64) -> Result<Vec<u8>, random_access_storage::RandomAccessError> {
        self.0.lock().await.read(offset, length).await
    }
    async fn del(&mut self, offset: u64, length: u64) -> Result<(), random_access_storage::RandomAccessError> {
        self.0.lock().await.del(offset, length).await
    }
    async fn truncate(&mut self, length: u64) -> Result<(), random_access_storage::RandomAccessError> {
        self.0.lock().await.truncate(length).await
    }
    async fn len(&mut self) -> Result<u64, random_access_storage::RandomAccessError> {
        self.0.lock().await.len().await
    }
    async fn is_empty(&mut self) -> Result<bool, random_access_storage::RandomAccessError> {
        self.0.lock().await.is_empty().await
    }
    async fn sync_all(&mut self) -> Result<(), random_access_storage::RandomAccessError> {
        Ok(())
    }
}

async fn alt_storage(alt: &Alt) -> Result<hypercore::Storage, HypercoreError> {
    use hypercore::{Storage, StorageTraits, Store};
    match alt {
        Alt::Mem(m) => {
            let m = m.clone();
            Storage::open(
                move |store: Store| {
                    let h = MemHandle(m[crate::vstore::store_id(&store)].clone());
                    Box::pin(async move { Ok(Box::new(h) as Box<dyn StorageTraits + Send>) })
                        as std::pin::Pin<Box<dyn std::future::Future<Output = Result<Box<dyn StorageTraits + Send>, random_access_storage::RandomAccessError>> + Send>>
                },
                false,
            )
            .await
        }
        Alt::Disk(dir) => Storage::new_disk(dir, false).await,
    }
}

pub struct Core {
    pub id: String,
    pub alt: Option<Alt>,
    pub cache: u8,
    pub disk: VDisk,
    pub hc: Option<Hypercore>,
    pub subs: Vec<Receiver<Event>>,
    /// seed for the sample of block reads in projections
    pub sample_seed: u64,
}

pub fn with_cache(b: HypercoreBuilder, cache: u8) -> HypercoreBuilder {
    match cache {
        1 => b.node_cache_options(hypercore::CacheOptionsBuilder::new()),
        // room for three nodes (one node weighs 76)
        2 => b.node_cache_options(hypercore::CacheOptionsBuilder::new().max_capacity(3 * 76)),
        // room for one node / for thirteen nodes
        3 => b.node_cache_options(hypercore::CacheOptionsBuilder::new().max_capacity(100)),
        4 => b.node_cache_options(hypercore::CacheOptionsBuilder::new().max_capacity(1024)),
        _ => b,
    }
}

pub enum OpenResult {
    Ok,
    Empty,
    Err(Value),
}

impl Core {
    pub fn create(id: &str, disk: VDisk, kp: PartialKeypair) -> (Core, OpenResult) {
        let (alt, cache) = CFG.with(|c| {
            let mut c = c.borrow_mut();
            c.counter += 1;
            let alt = match c.backend {
                1 => Some(Alt::Mem(std::sync::Arc::new(
                    (0..4).map(|_| std::sync::Arc::new(futures::lock::Mutex::new(random_access_memory::RandomAccessMemory::default()))).collect(),
                ))),
                2 | 3 => {
                    let d = c.dir.join(format!("{}-{}", id, c.counter));
                    std::fs::create_dir_all(&d).unwrap();
                    Some(Alt::Disk(d))
                }
                _ => None,
            };
            (alt, c.cache)
        });
        let mut c = Core {
            id: id.to_string(),
            alt,
            cache,
            disk,
            hc: None,
            subs: vec![],
            sample_seed: 1,
        };
        let d = c.disk.clone();
        let alt = c.alt.clone();
        let overwrite = CFG.with(|c| c.borrow().backend == 3);
        let r = catch_unwind(AssertUnwindSafe(|| {
            block_on(async {
                let storage = match &alt {
                    Some(Alt::Disk(dir)) if overwrite => {
                        // the directory held another core before: creating with overwrite = true
                        // must start from empty stores
                        {
                            let st = hypercore::Storage::new_disk(dir, false).await?;
                            let mut old = HypercoreBuilder::new(st).key_pair(other_key_pair(9)).build().await?;
                            let blocks: Vec<Vec<u8>> = (0..6u8).map(|i| vec![i; 3]).collect();
                            old.append_batch(&blocks).await?;
                            old.clear(1, 2).await?;
                        }
                        hypercore::Storage::new_disk(dir, true).await?
                    }
                    Some(a) => alt_storage(a).await?,
                    None => d.storage().await,
                };
                with_cache(HypercoreBuilder::new(storage).key_pair(kp), cache).build().await
            })
        }));
        let res = c.take_open(r);
        (c, res)
    }

    pub fn open(id: &str, disk: VDisk) -> (Core, OpenResult) {
        let mut c = Core {
            id: id.to_string(),
            alt: None,
            cache: CFG.with(|c| c.borrow().cache),
            disk,
            hc: None,
            subs: vec![],
            sample_seed: 1,
        };
        let res = c.reopen();
        (c, res)
    }

    fn take_open(
        &mut self,
        r: std::thread::Result<Result<Hypercore, HypercoreError>>,
    ) -> OpenResult {
        match r {
            Ok(Ok(hc)) => {
                self.hc = Some(hc);
                OpenResult::Ok
            }
            Ok(Err(e)) => {
                if let HypercoreError::EmptyStorage { .. } = e {
                    OpenResult::Empty
                } else {
                    OpenResult::Err(err_json(&e))
                }
            }
            Err(p) => OpenResult::Err(panic_json(p)),
        }
    }

    /// Drop the instance (and its subscribers) and open the same storage again.
    pub fn reopen(&mut self) -> OpenResult {
        self.hc = None;
        self.subs.clear();
        let d = self.disk.clone();
        let alt = self.alt.clone();
        let cache = self.cache;
        let r = catch_unwind(AssertUnwindSafe(|| {
            block_on(async {
                let storage = match &alt {
                    Some(a) => alt_storage(a).await?,
                    None => d.storage().await,
                };
                with_cache(HypercoreBuilder::new(storage).open(true), cache).build().await
            })
        }));
        self.take_open(r)
    }

    /// Current bytes of the four stores, whatever the backend.
    pub fn images(&self) -> crate::vstore::Images {
        match &self.alt {
            None => self.disk.images(),
            Some(Alt::Mem(m)) => {
                let mut out: crate::vstore::Images = Default::default();
                for (i, s) in m.iter().enumerate() {
                    out[i] = block_on(async {
                        use random_access_storage::RandomAccess;
                        let mut g = s.lock().await;
                        let len = g.len().await.unwrap();
                        g.read(0, len).await.unwrap()
                    });
                }
                out
            }
            Some(Alt::Disk(dir)) => {
                let mut out: crate::vstore::Images = Default::default();
                for (i, name) in crate::vstore::STORES.iter().enumerate() {
                    out[i] = std::fs::read(dir.join(name)).unwrap_or_default();
                }
                out
            }
        }
    }

    /// (length, crc32) of each store, up to zero-filled holes: a hole at the tail (a zero-length
    /// write beyond the end extends the in-memory backends but not a file on disk) is cut off
    pub fn image_digest(&self) -> Value {
        let img = self.images();
        json!(img
            .iter()
            .map(|v| {
                let n = v.iter().rposition(|b| *b != 0).map(|p| p + 1).unwrap_or(0);
                json!([n, crc32fast::hash(&v[..n])])
            })
            .collect::<Vec<_>>())
    }

    pub fn apply_proof(&mut self, proof: &hypercore::Proof) -> Value {
        let hc = match self.hc.as_mut() {
            Some(h) => h,
            None => return json!({"t":"noinstance"}),
        };
        let r = catch_unwind(AssertUnwindSafe(|| block_on(hc.verify_and_apply_proof(proof))));
        match r {
            Ok(Ok(b)) => json!({"t":"ok","applied":b}),
            Ok(Err(e)) => err_json(&e),
            Err(p) => panic_json(p),
        }
    }

    pub fn create_proof(
        &mut self,
        block: Option<hypercore::RequestBlock>,
        hash: Option<hypercore::RequestBlock>,
        seek: Option<hypercore::RequestSeek>,
        upgrade: Option<hypercore::RequestUpgrade>,
    ) -> Result<Option<hypercore::Proof>, Value> {
        let hc = match self.hc.as_mut() {
            Some(h) => h,
            None => return Err(json!({"t":"noinstance"})),
        };
        let r = catch_unwind(AssertUnwindSafe(|| {
            block_on(hc.create_proof(block, hash, seek, upgrade))
        }));
        match r {
            Ok(Ok(p)) => Ok(p),
            Ok(Err(e)) => Err(err_json(&e)),
            Err(p) => Err(panic_json(p)),
        }
    }

    pub fn missing_nodes_tree(&mut self, tree_index: u64) -> Result<u64, Value> {
        let hc = match self.hc.as_mut() {
            Some(h) => h,
            None => return Err(json!({"t":"noinstance"})),
        };
        let r = catch_unwind(AssertUnwindSafe(|| {
            block_on(hc.missing_nodes_from_merkle_tree_index(tree_index))
        }));
        match r {
            Ok(Ok(n)) => Ok(n),
            Ok(Err(e)) => Err(err_json(&e)),
            Err(p) => Err(panic_json(p)),
        }
    }

    pub fn missing_nodes(&mut self, index: u64) -> Result<u64, Value> {
        let hc = match self.hc.as_mut() {
            Some(h) => h,
            None => return Err(json!({"t":"noinstance"})),
        };
        let r = catch_unwind(AssertUnwindSafe(|| block_on(hc.missing_nodes(index))));
        match r {
            Ok(Ok(n)) => Ok(n),
            Ok(Err(e)) => Err(err_json(&e)),
            Err(p) => Err(panic_json(p)),
        }
    }

    /// open(true) together with a key pair on the same storage; the live instance is untouched
    pub fn open_with_key_pair(&mut self) -> Value {
        let d = self.disk.clone();
        let before = d.ops();
        // every kind of key pair is refused in open mode: the stored one, its public half, an
        // unrelated one, the public half of an unrelated one (in turn, by the storage's age)
        let kp = match before % 4 {
            0 => test_key_pair(),
            1 => PartialKeypair { public: test_key_pair().public, secret: None },
            2 => other_key_pair(5),
            _ => PartialKeypair { public: other_key_pair(5).public, secret: None },
        };
        let r = catch_unwind(AssertUnwindSafe(|| {
            block_on(async {
                let storage = d.storage().await;
                HypercoreBuilder::new(storage)
                    .key_pair(kp)
                    .open(true)
                    .build()
                    .await
            })
        }));
        let ops = self.disk.ops() - before;
        match r {
            Ok(Ok(_)) => json!({"t":"opened","ops":ops}),
            Ok(Err(HypercoreError::BadArgument { .. })) => json!({"t":"badarg","ops":ops}),
            Ok(Err(e)) => err_json(&e),
            Err(p) => panic_json(p),
        }
    }

    /// Drop the instance and open the same storage through the create-or-open path.
    pub fn reopen_create_path(&mut self, kp: u8) -> OpenResult {
        self.hc = None;
        self.subs.clear();
        let d = self.disk.clone();
        let r = catch_unwind(AssertUnwindSafe(|| {
            block_on(async {
                let storage = d.storage().await;
                let b = HypercoreBuilder::new(storage);
                let b = match kp {
                    1 => b.key_pair(test_key_pair()),
                    2 => b.key_pair(other_key_pair(5)),
                    _ => b,
                };
                b.build().await
            })
        }));
        self.take_open(r)
    }

    pub fn subscribe(&mut self) {
        if let Some(hc) = &self.hc {
            self.subs.push(hc.event_subscribe());
        }
    }

    /// Drain every subscriber; one list of events per subscriber.
    pub fn drain(&mut self) -> Value {
        let mut all = vec![];
        for r in self.subs.iter_mut() {
            let mut evs = vec![];
            loop {
                match r.try_recv() {
                    Ok(Event::Get(g)) => {
                        let (i, bi) = idx_json(g.index);
                        evs.push(json!(["get", i, bi]));
                    }
                    Ok(Event::DataUpgrade(_)) => evs.push(json!(["upgrade"])),
                    Ok(Event::Have(h)) => {
                        let (s, _) = idx_json(h.start);
                        let (n, _) = idx_json(h.length);
                        evs.push(json!(["have", s, n, h.drop]));
                    }
                    Err(async_broadcast::TryRecvError::Overflowed(n)) => {
                        evs.push(json!(["overflowed", n]));
                    }
                    Err(_) => break,
                }
            }
            all.push(Value::Array(evs));
        }
        Value::Array(all)
    }

    pub fn len(&self) -> u64 {
        self.hc.as_ref().map(|h| h.info().length).unwrap_or(0)
    }

    pub fn append_batch(&mut self, batch: &[Vec<u8>]) -> Value {
        let hc = match self.hc.as_mut() {
            Some(h) => h,
            None => return json!({"t":"noinstance"}),
        };
        let r = catch_unwind(AssertUnwindSafe(|| block_on(hc.append_batch(batch))));
        match r {
            Ok(Ok(o)) => json!({"t":"ok","len":o.length,"bytes":o.byte_length}),
            Ok(Err(HypercoreError::NotWritable)) => json!({"t":"notwritable"}),
            Ok(Err(e)) => err_json(&e),
            Err(p) => panic_json(p),
        }
    }

    pub fn append_single(&mut self, data: &[u8]) -> Value {
        let hc = match self.hc.as_mut() {
            Some(h) => h,
            None => return json!({"t":"noinstance"}),
        };
        let r = catch_unwind(AssertUnwindSafe(|| block_on(hc.append(data))));
        match r {
            Ok(Ok(o)) => json!({"t":"ok","len":o.length,"bytes":o.byte_length}),
            Ok(Err(HypercoreError::NotWritable)) => json!({"t":"notwritable"}),
            Ok(Err(e)) => err_json(&e),
            Err(p) => panic_json(p),
        }
    }

    pub fn clear(&mut self, s: u64, e: u64) -> Value {
        let hc = match self.hc.as_mut() {
            Some(h) => h,
            None => return json!({"t":"noinstance"}),
        };
        let r = catch_unwind(AssertUnwindSafe(|| block_on(hc.clear(s, e))));
        match r {
            Ok(Ok(())) => json!({"t":"ok"}),
            Ok(Err(e)) => err_json(&e),
            Err(p) => panic_json(p),
        }
    }

    pub fn get_raw(&mut self, i: u64) -> Result<Option<Vec<u8>>, Value> {
        let hc = match self.hc.as_mut() {
            Some(h) => h,
            None => return Err(json!({"t":"noinstance"})),
        };
        let r = catch_unwind(AssertUnwindSafe(|| block_on(hc.get(i))));
        match r {
            Ok(Ok(v)) => Ok(v),
            Ok(Err(e)) => Err(err_json(&e)),
            Err(p) => Err(panic_json(p)),
        }
    }

    pub fn get(&mut self, i: u64) -> Value {
        match self.get_raw(i) {
            Ok(Some(v)) => json!({"t":"some","size":v.len(),"cid":cid(&v)}),
            Ok(None) => json!({"t":"none"}),
            Err(e) => e,
        }
    }

    pub fn make_read_only(&mut self) -> Value {
        let hc = match self.hc.as_mut() {
            Some(h) => h,
            None => return json!({"t":"noinstance"}),
        };
        let r = catch_unwind(AssertUnwindSafe(|| block_on(hc.make_read_only())));
        match r {
            Ok(Ok(b)) => json!({"t":"ok","changed":b}),
            Ok(Err(e)) => err_json(&e),
            Err(p) => panic_json(p),
        }
    }

    pub fn has(&self, i: u64) -> Result<bool, Value> {
        let hc = match self.hc.as_ref() {
            Some(h) => h,
            None => return Err(json!({"t":"noinstance"})),
        };
        catch_unwind(AssertUnwindSafe(|| hc.has(i))).map_err(panic_json)
    }

    /// Projection of the live core through the public API only.
    pub fn view(&mut self) -> Value {
        let hc = match self.hc.as_ref() {
            Some(h) => h,
            None => return json!({"t":"noinstance"}),
        };
        let info = hc.info();
        let key = key_id(&hc.key_pair().public);
        let len = info.length;
        // has() on every index below the length -> interval list
        let mut held: Vec<[u64; 2]> = vec![];
        let mut gerr: Vec<Value> = vec![];
        let mut cur: Option<u64> = None;
        for i in 0..len {
            let h = match self.has(i) {
                Ok(h) => h,
                Err(_) => {
                    gerr.push(json!([i.min(1 << 30), "has-panic"]));
                    false
                }
            };
            match (h, cur) {
                (true, None) => cur = Some(i),
                (false, Some(s)) => {
                    held.push([s, i]);
                    cur = None;
                }
                _ => {}
            }
        }
        if let Some(s) = cur {
            held.push([s, len]);
        }
        // probes at and beyond the length
        let mut probes: Vec<u64> = (len..len + 64).collect();
        for page in 0..4u64 {
            let edge = ((len / 32768) + 1 + page) * 32768;
            for d in [edge - 1, edge, edge + 1, edge + 8191, edge + 8192] {
                probes.push(d);
            }
        }
        for e in [
            8192u64,
            32768,
            65536,
            (1 << 32) - 1,
            1 << 32,
            (1 << 32) + 1,
            1 << 40,
            1 << 63,
            u64::MAX - 1,
            u64::MAX,
        ] {
            if e >= len {
                probes.push(e);
            }
        }
        let mut beyond: Vec<String> = vec![];
        for p in probes {
            if p < len {
                continue;
            }
            match self.has(p) {
                Ok(false) => {}
                Ok(true) => beyond.push(p.to_string()),
                Err(_) => beyond.push(format!("panic@{p}")),
            }
        }
        // get() of held blocks: all when small, else interval boundaries plus a seeded sample
        let total: u64 = held.iter().map(|iv| iv[1] - iv[0]).sum();
        let mut idxs: Vec<u64> = vec![];
        if total <= 48 {
            for iv in &held {
                idxs.extend(iv[0]..iv[1]);
            }
        } else {
            for iv in &held {
                idxs.push(iv[0]);
                idxs.push(iv[1] - 1);
                if iv[1] - iv[0] > 2 {
                    idxs.push(iv[0] + 1);
                }
            }
            if idxs.len() > 40 {
                // keep the first and last few boundaries, sample the rest
                let mut rng = StdRng::seed_from_u64(self.sample_seed ^ len);
                let mut keep: Vec<u64> = idxs[..8].to_vec();
                keep.extend_from_slice(&idxs[idxs.len() - 8..]);
                for _ in 0..16 {
                    keep.push(idxs[rng.gen_range(0..idxs.len())]);
                }
                idxs = keep;
            }
            let mut rng = StdRng::seed_from_u64(self.sample_seed.wrapping_mul(31) ^ total);
            for _ in 0..16 {
                let mut k = rng.gen_range(0..total);
                for iv in &held {
                    let n = iv[1] - iv[0];
                    if k < n {
                        idxs.push(iv[0] + k);
                        break;
                    }
                    k -= n;
                }
            }
            idxs.sort();
            idxs.dedup();
        }
        self.sample_seed = self.sample_seed.wrapping_mul(6364136223846793005).wrapping_add(1);
        let mut blk: Vec<Value> = vec![];
        for i in idxs {
            match self.get_raw(i) {
                Ok(Some(v)) => blk.push(json!([i, v.len(), cid(&v)])),
                Ok(None) => gerr.push(json!([i, "none"])),
                Err(e) => gerr.push(json!([i, e])),
            }
        }
        // reads of held blocks must not have produced events
        let pev: usize = self
            .drain()
            .as_array()
            .unwrap()
            .iter()
            .map(|l| l.as_array().unwrap().len())
            .sum();
        json!({
            "len": len, "bytes": info.byte_length, "contig": info.contiguous_length,
            "fork": info.fork, "writable": info.writeable, "key": key,
            "held": held, "beyond": beyond, "blk": blk, "gerr": gerr, "pev": pev
        })
    }
}
