//! C15: several tasks on one `SharedCore`, driven by a deterministic single-threaded scheduler.
//! The instrumented backend returns `Pending` once per storage operation, so every storage
//! operation and every lock acquisition is a point where the scheduler may switch tasks.
//! Schedules are enumerated by preemption bounding: run the task in hand until it finishes or
//! blocks, plus up to K forced switches at every possible position.  Each run logs invocations
//! and responses in scheduler order; TLC (spec/TraceShared.tla) searches a linearization.
use crate::core::*;
use crate::rec::Rec;
use crate::repl::proof_shape;
use crate::vstore::*;
use futures::executor::block_on;
use hypercore::replication::{CoreInfo, CoreMethods, ReplicationMethods, SharedCore};
use hypercore::{HypercoreBuilder, PartialKeypair, Proof, RequestBlock, RequestUpgrade};
use rand::rngs::StdRng;
use rand::{Rng, SeedableRng};
use serde_json::{json, Value};
use std::cell::RefCell;
use std::future::Future;
use std::pin::Pin;
use std::rc::Rc;
use std::task::{Context, Poll};

#[derive(Clone, Debug)]
pub enum Call {
    Append(Vec<u8>),
    Batch(Vec<Vec<u8>>),
    Get(u64),
    /// `get` of the last block that this task's latest `info` reported (resolved when it is called)
    GetTail,
    Has(u64),
    Info,
    MkProof(u64, bool),
    Missing(u64),
    Apply(Box<Proof>, Value),
}

fn call_json(c: &Call) -> Value {
    match c {
        Call::Append(b) => json!({"o":"append","runs":runs_of(&[b.clone()])}),
        Call::Batch(bs) => json!({"o":"append","runs":runs_of(bs)}),
        Call::Get(i) => json!({"o":"get","i":i,"bi":""}),
        Call::GetTail => json!({"o":"get","i":0,"bi":""}),
        Call::Has(i) => json!({"o":"has","i":i}),
        Call::Info => json!({"o":"info"}),
        Call::MkProof(i, up) => json!({"o":"mkproof","blk":i,"hasup":up}),
        Call::Missing(i) => json!({"o":"missing","i":i}),
        Call::Apply(_, meta) => meta.clone(),
    }
}

async fn do_call(core: &SharedCore, c: &Call) -> Value {
    match c {
        Call::Append(b) => match core.append(b).await {
            Ok(o) => json!({"t":"ok","len":o.length,"bytes":o.byte_length}),
            Err(e) => json!({"t":"err","msg":format!("{e}").chars().take(120).collect::<String>()}),
        },
        Call::Batch(bs) => match core.append_batch(bs.clone()).await {
            Ok(o) => json!({"t":"ok","len":o.length,"bytes":o.byte_length}),
            Err(e) => json!({"t":"err","msg":format!("{e}").chars().take(120).collect::<String>()}),
        },
        Call::Get(i) => match core.get(*i).await {
            Ok(Some(v)) => json!({"t":"some","size":v.len(),"cid":cid(&v)}),
            Ok(None) => json!({"t":"none"}),
            Err(e) => json!({"t":"err","msg":format!("{e}").chars().take(120).collect::<String>()}),
        },
        Call::GetTail => unreachable!(),
        Call::Has(i) => json!({"t":"bool","v":core.has(*i).await}),
        Call::Info => {
            let i = core.info().await;
            json!({"t":"info","len":i.length,"bytes":i.byte_length,"contig":i.contiguous_length,"writable":i.writeable})
        }
        Call::MkProof(i, up) => {
            let upgrade = if *up {
                let len = core.info().await.length;
                Some(RequestUpgrade { start: 0, length: len })
            } else {
                None
            };
            match core.create_proof(Some(RequestBlock { index: *i, nodes: 0 }), None, None, upgrade).await {
                Ok(Some(_)) => json!({"t":"proof"}),
                Ok(None) => json!({"t":"none"}),
                Err(e) => json!({"t":"err","msg":format!("{e}").chars().take(120).collect::<String>()}),
            }
        }
        Call::Missing(i) => match core.missing_nodes(*i).await {
            Ok(_) => json!({"t":"n"}),
            Err(e) => json!({"t":"err","msg":format!("{e}").chars().take(120).collect::<String>()}),
        },
        Call::Apply(p, _) => match core.verify_and_apply_proof(p).await {
            Ok(true) => json!({"t":"ok","applied":true}),
            _ => json!({"t":"refused"}),
        },
    }
}

pub struct Setup {
    pub writer: bool,
    pub pre_blocks: Vec<Vec<u8>>,
    pub tasks: Vec<Vec<Call>>,
    /// storage the shared core is opened on (None: a freshly created core)
    pub base: Option<Images>,
}

struct RunOut {
    events: Vec<Value>,
    steps: usize,
    /// at each step: the task that was polled
    hung: bool,
}

/// One execution under a schedule given as forced switches (step -> task).
fn run_once(setup: &Setup, forced: &[(usize, usize)], starve: bool) -> RunOut {
    let disk = match &setup.base {
        Some(img) => VDisk::from_images(img.clone()),
        None => VDisk::new(),
    };
    let kp = test_key_pair();
    let hc = block_on(async {
        let storage = disk.storage().await;
        if setup.base.is_some() {
            HypercoreBuilder::new(storage).open(true).build().await.unwrap()
        } else {
            let kp2 = if setup.writer { kp.clone() } else { PartialKeypair { public: kp.public, secret: None } };
            HypercoreBuilder::new(storage).key_pair(kp2).build().await.unwrap()
        }
    });
    let mut hc = hc;
    if setup.writer && !setup.pre_blocks.is_empty() {
        block_on(hc.append_batch(&setup.pre_blocks)).unwrap();
    }
    let log: Rc<RefCell<Vec<Value>>> = Rc::new(RefCell::new(vec![]));
    let pre_view = {
        let mut c = Core { id: "s".into(), alt: None, cache: 0, disk: disk.clone(), hc: Some(hc), subs: vec![], sample_seed: 1 };
        let v = c.view();
        hc = c.hc.take().unwrap();
        v
    };
    log.borrow_mut().push(json!({"e":"start","c":"s","writer":setup.writer,"view":pre_view,
        "pre": runs_of(&setup.pre_blocks)}));
    let shared = SharedCore::from(hc);
    disk.set_yield(true);
    let mut futs: Vec<Option<Pin<Box<dyn Future<Output = ()>>>>> = vec![];
    for (t, calls) in setup.tasks.iter().enumerate() {
        let core = shared.clone();
        let calls = calls.clone();
        let log = log.clone();
        futs.push(Some(Box::pin(async move {
            let mut last_len = 0u64;
            for c in calls {
                let c = match c {
                    Call::GetTail => Call::Get(last_len.saturating_sub(1)),
                    c => c,
                };
                log.borrow_mut().push(json!({"e":"inv","t":t,"c":"s","op":call_json(&c)}));
                let r = do_call(&core, &c).await;
                if r["t"] == "info" {
                    last_len = r["len"].as_u64().unwrap_or(0);
                }
                log.borrow_mut().push(json!({"e":"res","t":t,"ret":r}));
            }
        })));
    }
    // A FIFO executor: tasks that woke themselves (the backend yields once per storage
    // operation) or were woken by an unlock go to the back of the run queue; a task blocked on
    // the lock is not polled until it is woken.  A forced switch moves a task to the front.
    struct Flag(std::sync::atomic::AtomicBool);
    impl futures::task::ArcWake for Flag {
        fn wake_by_ref(a: &std::sync::Arc<Self>) {
            a.0.store(true, std::sync::atomic::Ordering::SeqCst);
        }
    }
    let n = futs.len();
    let flags: Vec<std::sync::Arc<Flag>> = (0..n).map(|_| std::sync::Arc::new(Flag(std::sync::atomic::AtomicBool::new(false)))).collect();
    let wakers: Vec<std::task::Waker> = flags.iter().map(|f| futures::task::waker(f.clone())).collect();
    let mut queue: std::collections::VecDeque<usize> = (0..n).collect();
    let mut step = 0usize;
    let mut hung = false;
    while futs.iter().any(|f| f.is_some()) {
        if let Some((_, to)) = forced.iter().find(|(s, _)| *s == step) {
            let to = *to % n;
            if futs[to].is_some() {
                queue.retain(|x| *x != to);
                queue.push_front(to);
            }
        }
        let cur = match queue.pop_front() {
            Some(t) => t,
            None => {
                // nobody is runnable although calls are outstanding: a lost wake-up / deadlock
                hung = true;
                break;
            }
        };
        if futs[cur].is_none() {
            continue;
        }
        flags[cur].0.store(false, std::sync::atomic::Ordering::SeqCst);
        let mut cx = Context::from_waker(&wakers[cur]);
        let r = {
            let f = futs[cur].as_mut().unwrap();
            std::panic::catch_unwind(std::panic::AssertUnwindSafe(|| f.as_mut().poll(&mut cx)))
        };
        step += 1;
        match r {
            Ok(Poll::Ready(())) => futs[cur] = None,
            Ok(Poll::Pending) => {
                if !flags[cur].0.load(std::sync::atomic::Ordering::SeqCst) && starve {
                    // blocked on the lock. async_lock lets the releasing task take the mutex
                    // again at once unless a waiter has been waiting for more than 0.5 ms:
                    // let that much time pass so that the fair hand-over is explored too
                    std::thread::sleep(std::time::Duration::from_micros(650));
                }
            }
            Err(p) => {
                log.borrow_mut().push(json!({"e":"res","t":cur,"ret":panic_json(p)}));
                futs[cur] = None;
            }
        }
        for u in 0..n {
            if futs[u].is_some() && flags[u].0.load(std::sync::atomic::Ordering::SeqCst) && !queue.contains(&u) {
                queue.push_back(u);
            }
        }
        if step > 50_000 {
            hung = true;
            break;
        }
    }
    disk.set_yield(false);
    drop(futs);
    let mut events = log.borrow().clone();
    if hung {
        events.push(json!({"e":"final","c":"s","view":{"t":"hang"}}));
    } else {
        match std::sync::Arc::try_unwrap(shared.0) {
            Ok(m) => {
                let hc = m.into_inner();
                let mut c = Core { id: "s".into(), alt: None, cache: 0, disk: disk.clone(), hc: Some(hc), subs: vec![], sample_seed: 7 };
                events.push(json!({"e":"final","c":"s","view":c.view()}));
            }
            Err(_) => events.push(json!({"e":"final","c":"s","view":{"t":"still-shared"}})),
        }
    }
    RunOut { events, steps: step, hung }
}

fn small_block(rng: &mut StdRng) -> Vec<u8> {
    (0..rng.gen_range(0..4)).map(|_| rng.gen()).collect()
}

fn gen_writer_setup(rng: &mut StdRng, ntasks: usize, ncalls: usize) -> Setup {
    let pre: Vec<Vec<u8>> = (0..rng.gen_range(0..3)).map(|_| small_block(rng)).collect();
    let mut tasks = vec![];
    for _ in 0..ntasks {
        let mut calls = vec![];
        for _ in 0..rng.gen_range(1..=ncalls) {
            let c = match rng.gen_range(0..10) {
                0..=2 => Call::Append(small_block(rng)),
                3 => Call::Batch((0..rng.gen_range(0..3)).map(|_| small_block(rng)).collect()),
                4 => Call::Batch((0..rng.gen_range(3..8)).map(|_| small_block(rng)).collect()),
                5 => Call::Get(rng.gen_range(0..4)),
                6 => Call::Has(rng.gen_range(0..4)),
                7 => Call::Info,
                // a request for a block that exists from the start (requests for blocks that do
                // not exist yet are not well formed and may be answered with an error)
                8 if !pre.is_empty() => Call::MkProof(rng.gen_range(0..pre.len() as u64), rng.gen_bool(0.5)),
                8 => Call::Info,
                _ => Call::Missing(rng.gen_range(0..4)),
            };
            calls.push(c);
        }
        tasks.push(calls);
    }
    Setup { writer: true, pre_blocks: pre, tasks, base: None }
}

/// One task appends a batch that is larger than anything the other calls produce while the
/// other tasks append single blocks and read: a batch must land as one contiguous range.
fn gen_batch_vs_append(rng: &mut StdRng, ntasks: usize) -> Setup {
    let pre: Vec<Vec<u8>> = (0..rng.gen_range(0..2)).map(|_| small_block(rng)).collect();
    // every third setup has a long batch
    let long: usize = if rng.gen_range(0..3) == 0 { [33usize, 64, 65, 100, 129, 257][rng.gen_range(0..6)] } else { 0 };
    let mut tasks = vec![];
    for t in 0..ntasks {
        let mut calls = vec![];
        if t == 0 {
            if rng.gen_bool(0.5) {
                calls.push(Call::Info);
            }
            if long > 0 {
                // a long batch of identical one-byte blocks (one run in the trace): sizes around
                // the powers of two, where an implementation might cut a batch into pieces
                calls.push(Call::Batch((0..long).map(|_| vec![0x61u8]).collect()));
            } else {
                calls.push(Call::Batch((0..rng.gen_range(5..12)).map(|_| small_block(rng)).collect()));
            }
        } else {
            for _ in 0..rng.gen_range(1..=2) {
                let hi = if long > 0 { long as u64 + 2 } else { 6 };
                calls.push(if rng.gen_bool(0.7) { Call::Append(small_block(rng)) } else { Call::Get(rng.gen_range(0..hi)) });
            }
        }
        tasks.push(calls);
    }
    Setup { writer: true, pre_blocks: pre, tasks, base: None }
}

/// Appenders that append one block after the other (so that header flushes fall due: the first
/// mutating call of the instance and every fourth after it) while a reader keeps asking for the
/// newest block `info` has just reported: whatever `info` shows must be readable in full.
fn gen_tail_reader(rng: &mut StdRng, ntasks: usize) -> Setup {
    let pre: Vec<Vec<u8>> = (0..rng.gen_range(0..2)).map(|_| small_block(rng)).collect();
    let appenders = ntasks.max(3) - 1;
    let mut tasks = vec![];
    let mut tag = 0u8;
    for _ in 0..appenders {
        let n = rng.gen_range(3..=5);
        tasks.push((0..n).map(|_| { tag += 1; Call::Append(vec![tag; 1 + (tag % 3) as usize]) }).collect());
    }
    let mut calls = vec![];
    for _ in 0..rng.gen_range(4..=7) {
        calls.push(Call::Info);
        calls.push(match rng.gen_range(0..6) {
            0 => Call::MkProof(0, true),
            _ => Call::GetTail,
        });
    }
    if pre.is_empty() {
        calls.retain(|c| !matches!(c, Call::MkProof(..)));
    }
    tasks.push(calls);
    Setup { writer: true, pre_blocks: pre, tasks, base: None }
}

/// A replica shared by several tasks.  The replica has synced part of the log before it is
/// shared; the writer has grown since.  Each applier task applies a proof (block + upgrade)
/// that was requested in that common base state, so the proofs are valid in any order; a reader
/// task keeps the lock busy with reads of a block the replica holds.
fn gen_replica_setup(rng: &mut StdRng, ntasks: usize) -> Setup {
    let (mut w, _) = Core::create("w", VDisk::new(), test_key_pair());
    let n1 = rng.gen_range(1..=3u64);
    let n2 = n1 + rng.gen_range(1..=4u64);
    let blocks: Vec<Vec<u8>> = (0..n2).map(|i| vec![i as u8 + 1; 1 + (i % 3) as usize]).collect();
    w.append_batch(&blocks[..n1 as usize]);
    // base state of the replica: block 0 and the first n1 blocks' tree
    let kp = test_key_pair();
    let (mut base, _) = Core::create("r", VDisk::new(), PartialKeypair { public: kp.public, secret: None });
    let p0 = w
        .create_proof(Some(RequestBlock { index: 0, nodes: 0 }), None, None, Some(RequestUpgrade { start: 0, length: n1 }))
        .unwrap()
        .unwrap();
    base.apply_proof(&p0);
    w.append_batch(&blocks[n1 as usize..]);
    let mut tasks = vec![];
    let appliers = (ntasks.max(2) - 1).max(2).min(3);
    for _ in 0..appliers {
        let i = rng.gen_range(0..n2);
        let nodes = base.missing_nodes(i).unwrap_or(0);
        let p = w
            .create_proof(Some(RequestBlock { index: i, nodes }), None, None, Some(RequestUpgrade { start: n1, length: n2 - n1 }))
            .unwrap()
            .unwrap();
        let meta = json!({"o":"proof","src":"w","blk":i,"hasup":true,"shape":proof_shape(&p)});
        let mut calls = vec![Call::Apply(Box::new(p), meta)];
        match rng.gen_range(0..3) {
            0 => calls.push(Call::Get(i)),
            1 => calls.push(Call::Info),
            _ => {}
        }
        tasks.push(calls);
    }
    tasks.push((0..rng.gen_range(1..=3)).map(|_| Call::Get(0)).collect());
    if rng.gen_bool(0.6) {
        // a proof damaged in transit among the honest ones: it must be refused (and the refusal must
        // come back: the other tasks' calls queue behind it)
        let i = rng.gen_range(0..n2);
        let nodes = base.missing_nodes(i).unwrap_or(0);
        if let Ok(Some(mut p)) = w.create_proof(Some(RequestBlock { index: i, nodes }), None, None, Some(RequestUpgrade { start: n1, length: n2 - n1 })) {
            if let Some(u) = p.upgrade.as_mut() {
                u.signature[7] ^= 0x40;
                let at = rng.gen_range(0..tasks.len());
                tasks[at].insert(0, Call::Apply(Box::new(p), json!({"o":"forged","src":"w","blk":i})));
            }
        }
    }
    Setup { writer: false, pre_blocks: blocks, tasks, base: Some(base.disk.images()) }
}

pub fn run(args: &[String]) {
    let get = |name: &str, d: &str| args.iter().position(|a| a == name).and_then(|i| args.get(i + 1).cloned()).unwrap_or_else(|| d.to_string());
    let seed: u64 = get("--seed", "1").parse().unwrap();
    let runs: usize = get("--runs", "6").parse().unwrap();
    let out = get("--out", "shared.ndjson");
    let k: usize = get("--preemptions", "2").parse().unwrap();
    let max_sched: usize = get("--max-schedules", "400").parse().unwrap();
    let ntasks_max: usize = get("--tasks", "2").parse().unwrap();
    let ncalls: usize = get("--calls", "2").parse().unwrap();
    let kind = get("--kind", "all");
    let nrandom: usize = get("--random", "0").parse().unwrap();
    let only: Option<usize> = args.iter().position(|a| a == "--only").and_then(|i| args.get(i + 1).and_then(|v| v.parse().ok()));
    let rec = Rec::new(&out, 60);
    for r in 0..runs {
        if only.is_some() && only != Some(r) {
            continue;
        }
        let mut rng = StdRng::seed_from_u64(seed.wrapping_mul(7_368_787).wrapping_add(r as u64));
        let ntasks = rng.gen_range(2..=ntasks_max.max(2));
        let setup = match (kind.as_str(), r % 4) {
            ("replica", _) | ("all", 2) => gen_replica_setup(&mut rng, ntasks),
            ("batch", _) | ("all", 3) => gen_batch_vs_append(&mut rng, ntasks),
            ("tail", _) => gen_tail_reader(&mut rng, ntasks),
            _ => gen_writer_setup(&mut rng, ntasks, ncalls),
        };
        // baseline run to learn the number of steps, then forced switches at every position
        let base = run_once(&setup, &[], false);
        let ntasks = setup.tasks.len();
        let mut schedules: Vec<Vec<(usize, usize)>> = vec![vec![]];
        for s in 0..base.steps {
            for t in 0..ntasks {
                schedules.push(vec![(s, t)]);
            }
        }
        // a long setup has more single switches than the budget: a seeded subset, not a prefix
        while schedules.len() > max_sched.max(1) {
            let i = rng.gen_range(1..schedules.len());
            schedules.swap_remove(i);
        }
        // schedules with many forced switches at random positions
        let mut many: Vec<Vec<(usize, usize)>> = vec![];
        for _ in 0..nrandom {
            let mut sch: Vec<(usize, usize)> = (0..rng.gen_range(3..=10))
                .map(|_| (rng.gen_range(0..base.steps + 4), rng.gen_range(0..ntasks)))
                .collect();
            sch.sort();
            sch.dedup_by_key(|x| x.0);
            many.push(sch);
        }
        if k >= 2 {
            let mut pairs = vec![];
            for s1 in 0..base.steps {
                for s2 in (s1 + 1)..(base.steps + 6) {
                    for t1 in 0..ntasks {
                        for t2 in 0..ntasks {
                            if t1 != t2 {
                                pairs.push(vec![(s1, t1), (s2, t2)]);
                            }
                        }
                    }
                }
            }
            // seeded subset when there are too many
            while pairs.len() + schedules.len() > max_sched && !pairs.is_empty() {
                let i = rng.gen_range(0..pairs.len());
                pairs.swap_remove(i);
            }
            schedules.extend(pairs);
        }
        schedules.truncate(max_sched.max(1));
        schedules.extend(many);
        let mut seen = std::collections::HashSet::new();
        // every schedule with <= 1 forced switch also with starved waiters (fair hand-over of the
        // mutex); schedules with two forced switches alternate between the two modes
        let all: Vec<(Vec<(usize, usize)>, bool)> = schedules
            .iter()
            .enumerate()
            .map(|(k, s)| (s.clone(), s.len() >= 2 && k % 2 == 0))
            .chain(schedules.iter().filter(|s| s.len() <= 1).map(|s| (s.clone(), true)))
            .collect();
        for (si, (sch, starve)) in all.iter().enumerate() {
            let o = run_once(&setup, sch, *starve);
            if *starve {
                rec.count("starved_schedules", 1);
            }
            rec.count("schedules", 1);
            if o.hung {
                rec.count("hangs", 1);
            }
            // identical event sequences need to be judged once
            let key = serde_json::to_string(&o.events).unwrap();
            if !seen.insert(key) {
                continue;
            }
            rec.count("distinct_histories", 1);
            rec.emit(json!({"e":"reset","gen":{"drv":"shared","args":format!(
                "shared --seed {seed} --runs {runs} --preemptions {k} --max-schedules {max_sched} --tasks {ntasks_max} --calls {ncalls} --kind {kind} --random {nrandom} --only {r}")},
                "schedule": sch.iter().map(|(a, b)| json!([a, b])).collect::<Vec<_>>(), "sched_no": si}));
            for e in o.events {
                rec.emit(e);
            }
        }
        rec.count("setups", 1);
    }
    rec.finish();
}
