//! Layout-level checks: golden interop scenario and foreign images (C06), reference tree (C05),
//! wire messages (C11).  Expected bytes come from evaluating the templates of spec/Layout.tla.
use crate::abs::*;
use crate::codec::*;
use crate::core::*;
use crate::layout::*;
use crate::rec::Rec;
use crate::vstore::*;
use compact_encoding::CompactEncoding;
use hypercore::{
    DataBlock, DataHash, DataSeek, DataUpgrade, HypercoreBuilder, Node, PartialKeypair, RequestBlock,
    RequestSeek, RequestUpgrade, Storage,
};
use merkle_tree_stream::Node as NodeTrait;
use rand::rngs::StdRng;
use rand::{Rng, SeedableRng};
use serde_json::{json, Value};
use sha2::{Digest, Sha256};
use std::panic::{catch_unwind, AssertUnwindSafe};

fn arg(args: &[String], name: &str, default: &str) -> String {
    args.iter().position(|a| a == name).and_then(|i| args.get(i + 1).cloned()).unwrap_or_else(|| default.to_string())
}

// ---------------------------------------------------------------------------
// C06: the five-step interop scenario on the disk backend, Rust only

fn file_hash(path: &std::path::Path) -> Value {
    match std::fs::read(path) {
        Ok(b) => {
            let mut h = Sha256::new();
            h.update(&b);
            json!(format!("{:X}", h.finalize()))
        }
        Err(_) => json!("none"),
    }
}

fn dir_hashes(dir: &std::path::Path) -> Value {
    json!({"bitfield": file_hash(&dir.join("bitfield")), "data": file_hash(&dir.join("data")),
           "oplog": file_hash(&dir.join("oplog")), "tree": file_hash(&dir.join("tree"))})
}

pub fn golden(args: &[String]) {
    let out = arg(args, "--out", "golden.json");
    let work = arg(args, "--dir", "/verif/work/golden");
    let dir = std::path::PathBuf::from(&work);
    let _ = std::fs::remove_dir_all(&dir);
    std::fs::create_dir_all(&dir).unwrap();
    let rt = tokio::runtime::Builder::new_current_thread().enable_all().build().unwrap();
    let mut steps = vec![];
    let res: Result<(), String> = rt.block_on(async {
        let e = |x: hypercore::HypercoreError| format!("{x}");
        // step 1: create
        {
            let storage = Storage::new_disk(&dir, true).await.map_err(e)?;
            HypercoreBuilder::new(storage).key_pair(test_key_pair()).build().await.map_err(e)?;
        }
        steps.push(dir_hashes(&dir));
        // step 2: append Hello, World
        {
            let storage = Storage::new_disk(&dir, false).await.map_err(e)?;
            let mut hc = HypercoreBuilder::new(storage).open(true).build().await.map_err(e)?;
            let batch: &[&[u8]] = &[b"Hello", b"World"];
            hc.append_batch(batch).await.map_err(e)?;
        }
        steps.push(dir_hashes(&dir));
        // step 3: read and append unflushed
        {
            let storage = Storage::new_disk(&dir, false).await.map_err(e)?;
            let mut hc = HypercoreBuilder::new(storage).open(true).build().await.map_err(e)?;
            hc.get(0).await.map_err(e)?;
            hc.get(1).await.map_err(e)?;
            hc.append(b"first").await.map_err(e)?;
            let batch: &[&[u8]] = &[b"second", b"third"];
            hc.append_batch(batch).await.map_err(e)?;
            let multi = vec![0x61u8; 4096 * 3];
            hc.append(&multi).await.map_err(e)?;
            let empty: Vec<Vec<u8>> = vec![];
            hc.append_batch(&empty).await.map_err(e)?;
        }
        steps.push(dir_hashes(&dir));
        // step 4: five one-byte appends
        {
            let storage = Storage::new_disk(&dir, false).await.map_err(e)?;
            let mut hc = HypercoreBuilder::new(storage).open(true).build().await.map_err(e)?;
            for i in 0..5u8 {
                hc.append(&[i]).await.map_err(e)?;
            }
        }
        steps.push(dir_hashes(&dir));
        // step 5: clear some
        {
            let storage = Storage::new_disk(&dir, false).await.map_err(e)?;
            let mut hc = HypercoreBuilder::new(storage).open(true).build().await.map_err(e)?;
            hc.clear(5, 6).await.map_err(e)?;
            hc.clear(7, 9).await.map_err(e)?;
        }
        steps.push(dir_hashes(&dir));
        Ok(())
    });
    let _ = std::fs::remove_dir_all(&dir);
    let j = json!({"steps": steps, "error": res.err()});
    std::fs::write(out, serde_json::to_string_pretty(&j).unwrap()).unwrap();
}

// ---------------------------------------------------------------------------
// C05: every stored node, the tree hash and the signature against the reference

fn build_core(rng: &mut StdRng, n: u64, max_block: usize) -> (Core, Vec<Vec<u8>>) {
    let (mut core, _) = Core::create("w", VDisk::new(), test_key_pair());
    let mut blocks: Vec<Vec<u8>> = vec![];
    while (blocks.len() as u64) < n {
        let left = n - blocks.len() as u64;
        let mk = |rng: &mut StdRng| -> Vec<u8> {
            let size = match rng.gen_range(0..10) {
                0 => 0,
                1 => max_block,
                _ => rng.gen_range(0..=max_block.min(64)),
            };
            (0..size).map(|_| rng.gen()).collect()
        };
        match rng.gen_range(0..7) {
            0 => {
                core.reopen();
            }
            6 => {
                // calls that write the header without signing anything new
                let len = core.len();
                if len > 0 {
                    let s0 = rng.gen_range(0..len);
                    core.clear(s0, s0 + 1);
                }
            }
            1 | 2 => {
                let b = mk(rng);
                core.append_single(&b);
                blocks.push(b);
            }
            _ => {
                let k = rng.gen_range(1..=left.min(9));
                let bs: Vec<Vec<u8>> = (0..k).map(|_| mk(rng)).collect();
                core.append_batch(&bs);
                blocks.extend(bs);
            }
        }
    }
    // sometimes end with a reopen followed by a header-writing call that appends nothing
    match rng.gen_range(0..4) {
        0 => {
            core.reopen();
            let len = core.len();
            if len > 0 {
                core.clear(len - 1, len);
            }
            core.reopen();
        }
        1 => {
            core.reopen();
            core.make_read_only();
            core.reopen();
        }
        _ => {}
    }
    (core, blocks)
}

fn node_mismatch(kind: &str, idx: u64, got: (u64, &[u8]), want: Option<&(u64, Vec<u8>)>) -> Option<Value> {
    match want {
        Some((s, h)) if *s == got.0 && h[..] == *got.1 => None,
        Some((s, _)) => Some(json!({"what": kind, "index": idx, "got_size": got.0, "want_size": s, "hash_equal": false})),
        None => Some(json!({"what": format!("{kind}: not a full node of the tree"), "index": idx})),
    }
}

pub fn treecheck(args: &[String]) {
    let l = layout().expect("HCV_LAYOUT");
    let out = arg(args, "--out", "tree.json");
    let seed: u64 = arg(args, "--seed", "1").parse().unwrap();
    let reps: u64 = arg(args, "--reps", "1").parse().unwrap();
    let maxn: u64 = arg(args, "--maxn", "1000000").parse().unwrap();
    let mut results = vec![];
    let mut nodes_checked = 0u64;
    let mut proofs_checked = 0u64;
    let sizes: Vec<u64> = l.j["shapes"].as_array().unwrap().iter().map(|s| s["n"].as_u64().unwrap()).filter(|n| *n <= maxn).collect();
    for rep in 0..reps {
        for &n in &sizes {
            let mut rng = StdRng::seed_from_u64(seed * 7919 + n * 31 + rep);
            let max_block = if n <= 40 { 4096 } else { 96 };
            let r = catch_unwind(AssertUnwindSafe(|| {
                let (mut core, blocks) = build_core(&mut rng, n, max_block);
                let mut mism: Vec<Value> = vec![];
                let t = ref_tree(l, &blocks).unwrap();
                let img = core.disk.images();
                let stored = stored_nodes(l, &img);
                let mut cnt = 0u64;
                for (i, want) in &t.nodes {
                    cnt += 1;
                    match stored.get(i) {
                        Some((s, h)) => {
                            if let Some(m) = node_mismatch("stored node", *i, (*s, h), Some(want)) {
                                mism.push(m);
                            }
                        }
                        None => mism.push(json!({"what":"node neither in the tree store nor in an unflushed entry","index":i})),
                    }
                }
                let th = ref_tree_hash(l, &t);
                let signable = ref_signable(l, &th, n, 0);
                if n > 0 {
                    match current_tree_claim(l, &img) {
                        Some((len, sig)) => {
                            if len != n {
                                mism.push(json!({"what":"stored tree length","got":len,"want":n}));
                            }
                            if !verify_sig(&TEST_PUBLIC_KEY_BYTES, &signable, &sig) {
                                mism.push(json!({"what":"stored signature does not verify over namespace||treehash||length||fork"}));
                            }
                            if sig != sign_ref(&signable) {
                                mism.push(json!({"what":"stored signature differs from the deterministic Ed25519 signature"}));
                            }
                        }
                        None => mism.push(json!({"what":"no valid header slot"})),
                    }
                    // root hash of a flushed header
                    for s in 0..2 {
                        let slot = decode_slot(l, &img[3], s);
                        if slot.ok && fu(&slot.fields, "length") == n && fb(&slot.fields, "roothash") != &th[..] {
                            mism.push(json!({"what":"header root hash","slot":s}));
                        }
                    }
                }
                // proofs carry the same values - also when the core has just been reopened and what it
                // serves comes from the replay of its unflushed entries
                let mut pc = 0u64;
                if rng.gen_bool(0.5) {
                    if !matches!(core.reopen(), OpenResult::Ok) {
                        mism.push(json!({"what":"reopen before serving proofs failed"}));
                    }
                }
                if n > 0 {
                    let idxs: Vec<u64> = if n <= 16 { (0..n).collect() } else {
                        let mut v = vec![0, 1, n / 2, n - 2, n - 1];
                        for _ in 0..6 { v.push(rng.gen_range(0..n)); }
                        v
                    };
                    for i in idxs {
                        if !core.has(i).unwrap_or(false) {
                            continue; // cleared while the core was built: there is no block proof
                        }
                        for start in [0u64, n / 2, n - 1] {
                            if start >= n { continue; }
                            let nodes = 0;
                            let pr = core.create_proof(Some(RequestBlock { index: i, nodes }), None, None,
                                Some(RequestUpgrade { start, length: n - start }));
                            pc += 1;
                            match pr {
                                Ok(Some(p)) => {
                                    let mut all: Vec<&Node> = vec![];
                                    if let Some(b) = &p.block { all.extend(b.nodes.iter()); }
                                    if let Some(u) = &p.upgrade {
                                        all.extend(u.nodes.iter());
                                        all.extend(u.additional_nodes.iter());
                                        if u.signature != sign_ref(&signable) {
                                            mism.push(json!({"what":"proof signature","block":i,"start":start}));
                                        }
                                    }
                                    for nd in all {
                                        if let Some(m) = node_mismatch("proof node", nd.index(), (nd.len(), nd.hash()), t.nodes.get(&nd.index())) {
                                            mism.push(m);
                                        }
                                    }
                                    if let Some(b) = &p.block {
                                        if b.value != blocks[i as usize] {
                                            mism.push(json!({"what":"proof block value","block":i}));
                                        }
                                    }
                                }
                                Ok(None) => mism.push(json!({"what":"no proof for a held block","block":i})),
                                Err(e) => {
                                    // a block at or beyond the upgrade start together with nodes=0 is fine; errors
                                    // are only expected for combinations the protocol does not serve
                                    if i < start || start == 0 {
                                        mism.push(json!({"what":"proof error","block":i,"start":start,"err":e}));
                                    }
                                }
                            }
                        }
                    }
                }
                (mism, cnt, pc)
            }));
            match r {
                Ok((mism, cnt, pc)) => {
                    nodes_checked += cnt;
                    proofs_checked += pc;
                    results.push(json!({"n": n, "rep": rep, "nodes": cnt, "proofs": pc, "mismatches": mism}));
                }
                Err(p) => results.push(json!({"n": n, "rep": rep, "mismatches": [{"what":"panic","msg":panic_json(p)}]})),
            }
        }
    }
    let j = json!({"results": results, "nodes_checked": nodes_checked, "proofs_checked": proofs_checked});
    std::fs::write(out, serde_json::to_string(&j).unwrap()).unwrap();
}

// ---------------------------------------------------------------------------
// C11: wire messages

fn nodes_fields(nodes: &[Node]) -> Val {
    Val::L(nodes.iter().map(|n| {
        let mut f = Fields::new();
        f.insert("index".into(), Val::U(n.index()));
        f.insert("size".into(), Val::U(n.len()));
        f.insert("hash".into(), Val::B(n.hash().to_vec()));
        f
    }).collect())
}

fn check_msg<T: CompactEncoding + PartialEq + std::fmt::Debug>(l: &Layout, name: &str, v: &T, f: &Fields, bad: &mut Vec<Value>, stats: &mut (u64, u64)) {
    let mut want = vec![];
    l.enc(&l.t("messages")[name], f, &mut want);
    stats.0 += 1;
    let r = catch_unwind(AssertUnwindSafe(|| {
        let mut errs: Vec<String> = vec![];
        match v.encoded_size() {
            Ok(sz) => {
                if sz != want.len() {
                    errs.push(format!("encoded_size {} but the encoding has {} bytes", sz, want.len()));
                }
                let mut buf = vec![0xAAu8; sz];
                match v.encode(&mut buf) {
                    Ok(rest) => {
                        if !rest.is_empty() {
                            errs.push(format!("encode left {} of the announced bytes unwritten", rest.len()));
                        }
                    }
                    Err(e) => errs.push(format!("encode error {e}")),
                }
                if buf != want {
                    errs.push("encoded bytes differ from the reference encoding".into());
                }
            }
            Err(e) => errs.push(format!("encoded_size error {e}")),
        }
        match T::decode(&want) {
            Ok((d, rest)) => {
                if &d != v {
                    errs.push("decode(reference bytes) differs from the value".into());
                }
                if !rest.is_empty() {
                    errs.push(format!("decode left {} bytes over", rest.len()));
                }
            }
            Err(e) => errs.push(format!("decode(reference bytes) error {e}")),
        }
        errs
    }));
    match r {
        Ok(errs) => {
            for e in errs {
                bad.push(json!({"msg": name, "what": e, "value": format!("{v:?}").chars().take(200).collect::<String>()}));
            }
        }
        Err(p) => bad.push(json!({"msg": name, "what": "panic", "detail": panic_json(p)})),
    }
    // every strict prefix must be refused with an error
    for cut in 0..want.len() {
        stats.1 += 1;
        let r = catch_unwind(AssertUnwindSafe(|| T::decode(&want[..cut]).is_ok()));
        match r {
            Ok(false) => {}
            Ok(true) => bad.push(json!({"msg": name, "what": format!("strict prefix of {cut}/{} bytes decodes successfully", want.len())})),
            Err(_) => bad.push(json!({"msg": name, "what": format!("strict prefix of {cut}/{} bytes panics", want.len())})),
        }
    }
}

pub fn wirecheck(args: &[String]) {
    let l = layout().expect("HCV_LAYOUT");
    let out = arg(args, "--out", "wire.json");
    let seed: u64 = arg(args, "--seed", "1").parse().unwrap();
    let full = arg(args, "--full", "0") == "1";
    let mut rng = StdRng::seed_from_u64(seed);
    let bounds: Vec<u64> = l.t("cuint_boundaries").as_array().unwrap().iter().map(|s| s.as_str().unwrap().parse::<u128>().unwrap() as u64).collect();
    let mut bad: Vec<Value> = vec![];
    let mut stats = (0u64, 0u64);
    // hashes: random ones, and the values an encoder may treat specially (all zero = a blank node,
    // all ones, a single non-zero byte)
    fn pick_hash(rng: &mut StdRng) -> Vec<u8> {
        match rng.gen_range(0..8) {
            0 => vec![0u8; 32],
            1 => vec![0xFFu8; 32],
            2 => {
                let mut h = vec![0u8; 32];
                h[rng.gen_range(0..32)] = rng.gen_range(1..=255);
                h
            }
            _ => (0..32).map(|_| rng.gen()).collect(),
        }
    }
    let hash = |rng: &mut StdRng| -> Vec<u8> { pick_hash(rng) };
    // node indices with 63 or more trailing one bits make Node::new itself overflow (see the
    // standalone node check below, which reports it); inside other messages they are left out
    // so that one root cause is reported once
    let nb: Vec<u64> = bounds.iter().copied().filter(|x| x.trailing_ones() < 63).collect();
    let mk_nodes = |rng: &mut StdRng, k: usize, _b: &[u64]| -> Vec<Node> {
        (0..k).map(|_| Node::new(nb[rng.gen_range(0..nb.len())], pick_hash(rng), nb[rng.gen_range(0..nb.len())])).collect()
    };
    // integer fields at every boundary, pairwise
    for &a in &bounds {
        for &b in &bounds {
            let mut f = Fields::new();
            f.insert("index".into(), Val::U(a));
            f.insert("nodes".into(), Val::U(b));
            check_msg(l, "request_block", &RequestBlock { index: a, nodes: b }, &f, &mut bad, &mut stats);
            let mut f = Fields::new();
            f.insert("start".into(), Val::U(a));
            f.insert("length".into(), Val::U(b));
            check_msg(l, "request_upgrade", &RequestUpgrade { start: a, length: b }, &f, &mut bad, &mut stats);
            for h in [hash(&mut rng), vec![0u8; 32], vec![0xFFu8; 32]] {
                let mut f = Fields::new();
                f.insert("index".into(), Val::U(a));
                f.insert("size".into(), Val::U(b));
                f.insert("hash".into(), Val::B(h.clone()));
                match catch_unwind(AssertUnwindSafe(|| Node::new(a, h.clone(), b))) {
                    Ok(nd) => check_msg(l, "node", &nd, &f, &mut bad, &mut stats),
                    Err(_) => {
                        stats.0 += 1;
                        bad.push(json!({"msg":"node","what":"constructing the value panics","key":"node-index-trailing-ones","index":a.to_string()}));
                    }
                }
            }
        }
        let mut f = Fields::new();
        f.insert("bytes".into(), Val::U(a));
        check_msg(l, "request_seek", &RequestSeek { bytes: a }, &f, &mut bad, &mut stats);
    }
    // byte strings of every length 0..300, node lists of every length 0..8
    let lens: Vec<usize> = if full { (0..=300).collect() } else { (0..=300).filter(|n| *n < 4 || (250..=258).contains(n) || n % 37 == 0 || *n == 300).collect() };
    for &vl in &lens {
        for k in 0..=8usize {
            if !full && k > 2 && k != 8 && vl % 2 == 1 {
                continue;
            }
            let value: Vec<u8> = (0..vl).map(|i| i as u8).collect();
            let nodes = mk_nodes(&mut rng, k, &bounds);
            let idx = bounds[rng.gen_range(0..bounds.len())];
            let mut f = Fields::new();
            f.insert("index".into(), Val::U(idx));
            f.insert("value".into(), Val::B(value.clone()));
            f.insert("nodes".into(), nodes_fields(&nodes));
            check_msg(l, "data_block", &DataBlock { index: idx, value, nodes: nodes.clone() }, &f, &mut bad, &mut stats);
        }
    }
    for k in 0..=8usize {
        for &a in &bounds {
            let nodes = mk_nodes(&mut rng, k, &bounds);
            let mut f = Fields::new();
            f.insert("index".into(), Val::U(a));
            f.insert("bytes".into(), Val::U(a));
            f.insert("nodes".into(), nodes_fields(&nodes));
            check_msg(l, "data_hash", &DataHash { index: a, nodes: nodes.clone() }, &f, &mut bad, &mut stats);
            check_msg(l, "data_seek", &DataSeek { bytes: a, nodes: nodes.clone() }, &f, &mut bad, &mut stats);
            for k2 in [0usize, 1, 8] {
                for sl in [0usize, 1, 64, 252, 253, 300] {
                    let extra = mk_nodes(&mut rng, k2, &bounds);
                    let sig: Vec<u8> = (0..sl).map(|i| (i * 3) as u8).collect();
                    let b = bounds[rng.gen_range(0..bounds.len())];
                    let mut f = Fields::new();
                    f.insert("start".into(), Val::U(a));
                    f.insert("length".into(), Val::U(b));
                    f.insert("nodes".into(), nodes_fields(&nodes));
                    f.insert("additional_nodes".into(), nodes_fields(&extra));
                    f.insert("signature".into(), Val::B(sig.clone()));
                    check_msg(l, "data_upgrade", &DataUpgrade { start: a, length: b, nodes: nodes.clone(), additional_nodes: extra, signature: sig }, &f, &mut bad, &mut stats);
                }
            }
        }
    }
    let j = json!({"values": stats.0, "prefixes": stats.1, "bad": bad.iter().take(50).collect::<Vec<_>>(), "bad_count": bad.len()});
    std::fs::write(out, serde_json::to_string(&j).unwrap()).unwrap();
}

// ---------------------------------------------------------------------------
// C06: storage laid out by the JavaScript rules that the crate never writes itself

fn put_slot(l: &Layout, oplog: &mut Vec<u8>, s: usize, payload: Option<(&[u8], u64)>) {
    let size = l.num("slot_size") as usize;
    if oplog.len() < 2 * size {
        oplog.resize(2 * size, 0);
    }
    for b in &mut oplog[s * size..(s + 1) * size] {
        *b = 0;
    }
    if let Some((p, bit)) = payload {
        let framed = l.frame(p, false, bit);
        oplog[s * size..s * size + framed.len()].copy_from_slice(&framed);
    }
}

pub fn foreign(args: &[String]) {
    let l = layout().expect("HCV_LAYOUT");
    let out = arg(args, "--out", "foreign.ndjson");
    let seed: u64 = arg(args, "--seed", "1").parse().unwrap();
    let runs: u64 = arg(args, "--runs", "20").parse().unwrap();
    let rec = Rec::new(&out, 60);
    for r in 0..runs {
        let mut rng = StdRng::seed_from_u64(seed * 104729 + r);
        // a real core with 1..4 unflushed entries behind a flushed header
        let (mut core, _) = Core::create("w", VDisk::new(), test_key_pair());
        let pre = rng.gen_range(1..=3);
        for _ in 0..pre {
            let b: Vec<u8> = (0..rng.gen_range(0..5)).map(|_| rng.gen()).collect();
            core.append_single(&b);
        }
        core.reopen();
        let b: Vec<u8> = vec![rng.gen(), 1];
        core.append_single(&b); // first call of the instance: flushes
        let k = rng.gen_range(1..=3);
        for _j in 0..k {
            // appends only: an entry that a variant below makes the reader drop must not have
            // left effects in the other stores (a dropped clear would have punched its hole)
            {
                let bs: Vec<Vec<u8>> = (0..rng.gen_range(1..=2)).map(|_| vec![rng.gen(), 2]).collect();
                core.append_batch(&bs);
            }
        }
        let base = core.disk.images();
        let entries = decode_entries(l, &base[3]);
        let slots = [decode_slot(l, &base[3], 0), decode_slot(l, &base[3], 1)];
        if entries.is_empty() || !(slots[0].ok || slots[1].ok) {
            continue;
        }
        let bits = if slots[0].ok && slots[1].ok { [slots[0].bit, slots[1].bit] } else if slots[0].ok { [slots[0].bit, slots[0].bit] } else { [1 - slots[1].bit, slots[1].bit] };
        let cur_slot = if bits[0] == bits[1] { 0 } else { 1 };
        let cur_bit = (bits[0] != bits[1]) as u64;
        let hdr = slots[cur_slot].payload.clone();
        // variants: (name, slot layout, per-entry (partial, bit))
        let n = entries.len();
        let mut variants: Vec<(String, Vec<u8>)> = vec![];
        let mut build = |name: &str, slotcfg: [Option<u64>; 2], marks: Vec<(bool, u64)>, cur: u64| {
            let mut oplog = base[3][..(2 * l.num("slot_size") as usize).min(base[3].len())].to_vec();
            for s in 0..2 {
                put_slot(l, &mut oplog, s, slotcfg[s].map(|b| (&hdr[..], b)));
            }
            for (e, (partial, bit)) in entries.iter().zip(marks.iter()) {
                let payload = l.entry_enc(&e.fields);
                oplog.extend_from_slice(&l.frame(&payload, *partial, if *bit == 2 { cur } else { 1 - cur }));
            }
            variants.push((name.to_string(), oplog));
        };
        let all_cur = |n: usize| vec![(false, 2u64); n];
        // header only in the second slot: bits = [!b, b], the second slot is current, current bit 1
        build("only-slot-2", [None, Some(0)], all_cur(n), 1);
        build("only-slot-2-bit1", [None, Some(1)], all_cur(n), 1);
        // header only in the first slot: bits = [b, b], current bit 0
        build("only-slot-1", [Some(1), None], all_cur(n), 0);
        // both slots hold the header, either one current
        build("both-equal-bits", [Some(0), Some(0)], all_cur(n), 0);
        build("both-differ", [Some(0), Some(1)], all_cur(n), 1);
        // trailing partial entries are dropped
        let mut m = all_cur(n);
        m[n - 1].0 = true;
        build("last-partial", [Some(cur_bit), Some(cur_bit)], m, 0);
        if n >= 2 {
            let mut m = all_cur(n);
            m[n - 1].0 = true;
            m[n - 2].0 = true;
            build("last-two-partial", [Some(0), Some(0)], m, 0);
            // a complete atomic batch: partial, ..., final
            let mut m = all_cur(n);
            m[n - 2].0 = true;
            build("atomic-complete", [Some(0), Some(0)], m, 0);
            // an entry of the other header bit ends the log
            let mut m = all_cur(n);
            m[n - 1].1 = 3;
            build("stale-last", [Some(0), Some(0)], m, 0);
            let mut m = all_cur(n);
            m[1].1 = 3;
            build("stale-second", [Some(0), Some(0)], m, 0);
        }
        let mut m = all_cur(n);
        for x in m.iter_mut() {
            x.0 = true;
        }
        build("all-partial", [Some(0), Some(0)], m, 0);
        for (name, oplog) in variants {
            let mut img = base.clone();
            img[3] = oplog;
            let js = decode_stores(l, &img);
            let mut ev = json!({"e":"foreign","c":"w","variant":name,"js":js,
                "gen":{"drv":"abs","args":format!("foreign --seed {seed} --runs {runs}")}});
            rec.begin(ev.clone());
            let (mut c2, res) = Core::open("w", VDisk::from_images(img));
            ev["open"] = match &res {
                OpenResult::Ok => json!({"t":"ok"}),
                OpenResult::Empty => json!({"t":"empty"}),
                OpenResult::Err(e) => e.clone(),
            };
            if let OpenResult::Ok = res {
                ev["view"] = c2.view();
            }
            rec.end();
            rec.count("foreign_images", 1);
            rec.emit(json!({"e":"reset","gen":{"drv":"abs","args":format!("foreign --seed {seed} --runs {runs}")}}));
            rec.emit(ev);
        }
    }
    rec.finish();
}

/// js records for trace events of small cores (None when no layout is loaded or the core is big)
pub fn js_records(core: &Core) -> Option<Value> {
    let l = layout()?;
    let img = core.disk.images();
    // up to three bitfield pages (98304 blocks)
    if img[2].len() > 3 * 4096 || img[3].len() > 16_000_000 {
        return None;
    }
    Some(decode_stores(l, &img))
}

#[allow(dead_code)]
pub fn unused(_: &Op) {}

// ---------------------------------------------------------------------------
// Merkle.tla -> crate: honest proof shapes and the verifier's decisions on altered proofs
// (behaviours exported by TLC from spec/MCMerkle.tla)

fn mk_block(i: u64, size: u64) -> Vec<u8> {
    (0..size).map(|j| (i as u8).wrapping_mul(16).wrapping_add(j as u8).wrapping_add(1)).collect()
}

/// Replay of the (replica state, block-or-hash request + seek) pairs exported from MCSeek: the
/// crate's prover must produce the node lists of the transcribed prover (block/hash, seek and
/// upgrade sections), and the crate's verifier must accept the proof and store only true content.
pub fn seekreplay(args: &[String]) {
    let input = arg(args, "--in", "seek.ndjson");
    let out = arg(args, "--out", "seek.json");
    let text = std::fs::read_to_string(&input).unwrap();
    let mut lines = 0u64;
    let mut with_section = 0u64;
    let mut shape_diffs: Vec<Value> = vec![];
    let mut problems: Vec<Value> = vec![];
    for line in text.lines() {
        if line.trim().is_empty() {
            continue;
        }
        lines += 1;
        let j: Value = serde_json::from_str(line).unwrap();
        let sizes: Vec<u64> = j["sizes"].as_array().unwrap().iter().map(|x| x.as_u64().unwrap()).collect();
        let blocks: Vec<Vec<u8>> = sizes.iter().enumerate().map(|(i, s)| mk_block(i as u64, *s)).collect();
        let r = catch_unwind(AssertUnwindSafe(|| {
            let kp = test_key_pair();
            let (mut w, _) = Core::create("w", VDisk::new(), kp.clone());
            let (mut rep, _) = Core::create("r", VDisk::new(), PartialKeypair { public: kp.public, secret: None });
            let mut local: Vec<Value> = vec![];
            let mut sd: Option<Value> = None;
            let idx = |v: &Vec<Node>| v.iter().map(|n| n.index()).collect::<Vec<u64>>();
            let mut fetch = |w: &mut Core, rep: &mut Core, b: i64, h: i64, bytes: i64, upto: i64| -> Result<hypercore::Proof, String> {
                let (rl, wl) = (rep.len(), w.len());
                // a partial upgrade asks for a length below the writer's
                let wl = if upto >= 0 { upto as u64 } else { wl };
                let block = if b >= 0 { Some(RequestBlock { index: b as u64, nodes: rep.missing_nodes(b as u64).unwrap_or(0) }) } else { None };
                let hash = if h >= 0 { Some(RequestBlock { index: h as u64, nodes: rep.missing_nodes_tree(h as u64).unwrap_or(0) }) } else { None };
                let seek = if bytes >= 0 { Some(RequestSeek { bytes: bytes as u64 }) } else { None };
                let up = if rl < wl { Some(RequestUpgrade { start: rl, length: wl - rl }) } else { None };
                match w.create_proof(block, hash, seek, up) {
                    Ok(Some(p)) => Ok(p),
                    other => Err(format!("{other:?}").chars().take(160).collect()),
                }
            };
            for st in j["hist"].as_array().unwrap() {
                match st[0].as_str().unwrap() {
                    "grow" => {
                        let n = st[1].as_u64().unwrap();
                        while w.len() < n {
                            let i = w.len() as usize;
                            w.append_single(&blocks[i]);
                        }
                    }
                    kind => {
                        let bytes = if kind == "seek" { st[3].as_i64().unwrap() } else { -1 };
                        let (b0, h0, upto) = if kind == "partial" { (-1, -1, st[1].as_i64().unwrap()) } else { (st[1].as_i64().unwrap(), st[2].as_i64().unwrap(), -1) };
                        match fetch(&mut w, &mut rep, b0, h0, bytes, upto) {
                            Ok(p) => {
                                let ret = rep.apply_proof(&p);
                                if ret["applied"] != true {
                                    local.push(json!({"what":"honest proof of the history refused","step":st,"ret":ret}));
                                }
                            }
                            Err(e) => local.push(json!({"what":"no honest proof for a step of the history","step":st,"got":e})),
                        }
                    }
                }
            }
            if rep.len() != j["rl"].as_u64().unwrap() {
                local.push(json!({"what":"replica length after the history","got":rep.len(),"spec":j["rl"]}));
            }
            let (b, h, bytes) = (j["b"].as_i64().unwrap(), j["h"].as_i64().unwrap(), j["bytes"].as_i64().unwrap());
            let wl = w.len();
            let upto = j.get("upto").and_then(|x| x.as_i64()).unwrap_or(-1);
            match fetch(&mut w, &mut rep, b, h, bytes, upto) {
                Ok(p) => {
                    let got_b = p.block.as_ref().map(|x| idx(&x.nodes)).or_else(|| p.hash.as_ref().map(|x| idx(&x.nodes))).unwrap_or_default();
                    let got_s = p.seek.as_ref().map(|x| idx(&x.nodes)).unwrap_or_default();
                    let got_u = p.upgrade.as_ref().map(|x| idx(&x.nodes)).unwrap_or_default();
                    let got_x = p.upgrade.as_ref().map(|x| idx(&x.additional_nodes)).unwrap_or_default();
                    let spec = |k: &str| -> Vec<u64> { j.get(k).and_then(|v| v.as_array()).map(|a| a.iter().map(|n| n.as_u64().unwrap()).collect()).unwrap_or_default() };
                    if got_b != spec("block") || got_s != spec("seek") || got_u != spec("up") || got_x != spec("extra") {
                        sd = Some(json!({"hist":j["hist"],"b":b,"h":h,"bytes":bytes,"upto":upto,
                            "crate":{"block":got_b,"seek":got_s,"up":got_u,"extra":got_x},
                            "spec":{"block":spec("block"),"seek":spec("seek"),"up":spec("up"),"extra":spec("extra")}}));
                    }
                    let ret = rep.apply_proof(&p);
                    if ret["applied"] != true {
                        local.push(json!({"what":"honest proof with seek refused","b":b,"h":h,"bytes":bytes,"hist":j["hist"],"ret":ret}));
                    } else {
                        let len = rep.len();
                        if len != wl {
                            local.push(json!({"what":"length after the proof","got":len,"writer":wl}));
                        }
                        for i in 0..len.min(wl) {
                            if rep.has(i).unwrap_or(false) {
                                match rep.get_raw(i) {
                                    Ok(Some(v)) if v == blocks[i as usize] => {}
                                    other => local.push(json!({"what":"block content","i":i,"got":format!("{:?}", other.map(|o| o.map(|v| v.len())))})),
                                }
                            }
                        }
                    }
                }
                Err(e) => local.push(json!({"what":"no honest proof for the request","b":b,"h":h,"bytes":bytes,"hist":j["hist"],"got":e})),
            }
            (local, sd)
        }));
        if !j["seek"].as_array().unwrap().is_empty() {
            with_section += 1;
        }
        match r {
            Ok((local, sd)) => {
                problems.extend(local);
                if let Some(s) = sd { shape_diffs.push(s); }
            }
            Err(p) => problems.push(json!({"what":"panic","line":lines,"msg":panic_json(p)})),
        }
    }
    let j = json!({"lines": lines, "with_seek_section": with_section,
        "shape_diffs": shape_diffs.len(), "shape_diff_samples": shape_diffs.iter().take(5).collect::<Vec<_>>(),
        "problems": problems.len(), "problem_samples": problems.iter().take(8).collect::<Vec<_>>()});
    std::fs::write(out, serde_json::to_string_pretty(&j).unwrap()).unwrap();
}

pub fn merkle(args: &[String]) {
    let l = layout().expect("HCV_LAYOUT");
    let input = arg(args, "--in", "merkle.ndjson");
    let out = arg(args, "--out", "merkle.json");
    let text = std::fs::read_to_string(&input).unwrap();
    let mut lines = 0u64;
    let mut shape_diffs: Vec<Value> = vec![];
    let mut disagreements: Vec<Value> = vec![];
    let mut decisions = 0u64;
    let mut honest_refused: Vec<Value> = vec![];
    for line in text.lines() {
        if line.trim().is_empty() {
            continue;
        }
        lines += 1;
        let j: Value = serde_json::from_str(line).unwrap();
        let sizes: Vec<u64> = j["sizes"].as_array().unwrap().iter().map(|x| x.as_u64().unwrap()).collect();
        let blocks: Vec<Vec<u8>> = sizes.iter().enumerate().map(|(i, s)| mk_block(i as u64, *s)).collect();
        let full = ref_tree(l, &blocks).unwrap();
        let r = catch_unwind(AssertUnwindSafe(|| {
            let kp = test_key_pair();
            let (mut w, _) = Core::create("w", VDisk::new(), kp.clone());
            let (mut rep, _) = Core::create("r", VDisk::new(), PartialKeypair { public: kp.public, secret: None });
            let mut local: Vec<Value> = vec![];
            // replay the history
            for st in j["hist"].as_array().unwrap() {
                match st[0].as_str().unwrap() {
                    "grow" => {
                        let n = st[1].as_u64().unwrap();
                        while w.len() < n {
                            let i = w.len() as usize;
                            w.append_single(&blocks[i]);
                        }
                    }
                    _ => {
                        let b = st[1].as_i64().unwrap();
                        let h = st[2].as_i64().unwrap();
                        let (rl, wl) = (rep.len(), w.len());
                        let block = if b >= 0 { Some(RequestBlock { index: b as u64, nodes: rep.missing_nodes(b as u64).unwrap_or(0) }) } else { None };
                        let hash = if h >= 0 { Some(RequestBlock { index: h as u64, nodes: rep.missing_nodes_tree(h as u64).unwrap_or(0) }) } else { None };
                        let up = if rl < wl { Some(RequestUpgrade { start: rl, length: wl - rl }) } else { None };
                        match w.create_proof(block, hash, None, up) {
                            Ok(Some(p)) => {
                                let ret = rep.apply_proof(&p);
                                if ret["applied"] != true {
                                    local.push(json!({"what":"honest proof of the history refused","step":st,"ret":ret}));
                                }
                            }
                            other => local.push(json!({"what":"no honest proof for a step of the history","step":st,"got":format!("{other:?}").chars().take(120).collect::<String>()})),
                        }
                    }
                }
            }
            // the request of this line
            let b = j["b"].as_i64().unwrap();
            let h = j["h"].as_i64().unwrap();
            let (rl, wl) = (rep.len(), w.len());
            let mut shape_diff = None;
            if rl != j["rl"].as_u64().unwrap() {
                local.push(json!({"what":"replica length after the history","got":rl,"spec":j["rl"]}));
            }
            let miss = if b >= 0 { rep.missing_nodes(b as u64).unwrap_or(u64::MAX) }
                       else if h >= 0 { rep.missing_nodes_tree(h as u64).unwrap_or(u64::MAX) } else { 0 };
            let inside = (b >= 0 && (b as u64) < rl) || (h >= 0 && flat_tree::right_span(h as u64) < 2 * rl);
            if inside && miss != j["missing"].as_u64().unwrap() {
                local.push(json!({"what":"missing_nodes","b":b,"h":h,"got":miss,"spec":j["missing"]}));
            }
            let block = if b >= 0 { Some(RequestBlock { index: b as u64, nodes: miss }) } else { None };
            let hash = if h >= 0 { Some(RequestBlock { index: h as u64, nodes: miss }) } else { None };
            let up = if rl < wl { Some(RequestUpgrade { start: rl, length: wl - rl }) } else { None };
            if let Ok(Some(p)) = w.create_proof(block, hash, None, up) {
                let idx = |v: &Vec<Node>| v.iter().map(|n| n.index()).collect::<Vec<u64>>();
                let got_b = p.block.as_ref().map(|x| idx(&x.nodes)).or_else(|| p.hash.as_ref().map(|x| idx(&x.nodes))).unwrap_or_default();
                let got_u = p.upgrade.as_ref().map(|x| idx(&x.nodes)).unwrap_or_default();
                let got_x = p.upgrade.as_ref().map(|x| idx(&x.additional_nodes)).unwrap_or_default();
                let sect = if j["honest"]["hashash"] == true { &j["honest"]["hash"]["nodes"] } else { &j["honest"]["block"]["nodes"] };
                let spec_b: Vec<u64> = sect.as_array().unwrap().iter().map(|n| n[0].as_u64().unwrap()).collect();
                let spec_u: Vec<u64> = j["honest"]["up"]["nodes"].as_array().unwrap().iter().map(|n| n[0].as_u64().unwrap()).collect();
                if got_b != spec_b || got_u != spec_u || !got_x.is_empty() {
                    shape_diff = Some(json!({"hist":j["hist"],"b":b,"crate":{"block":got_b,"up":got_u,"extra":got_x},"spec":{"block":spec_b,"up":spec_u}}));
                }
            } else {
                local.push(json!({"what":"no honest proof for the request","b":b}));
            }
            // altered proofs: the spec's decision against the crate's
            let base = rep.disk.images();
            let mut dis: Vec<Value> = vec![];
            let mut n = 0u64;
            let mk_nodes = |v: &Value| -> Vec<Node> {
                v.as_array().unwrap().iter().map(|x| {
                    let tag = x[2].as_i64().unwrap();
                    let h = if tag >= 0 { full.nodes[&(tag as u64)].1.clone() } else { vec![0xBA; 32] };
                    Node::new(x[0].as_u64().unwrap(), h, x[1].as_u64().unwrap())
                }).collect()
            };
            for a in j["alts"].as_array().unwrap() {
                let pj = &a["p"];
                let block = if pj["hasblock"] == true {
                    let val = pj["block"]["val"].as_u64().unwrap();
                    let size = pj["block"]["size"].as_u64().unwrap() as usize;
                    let mut value = if val >= 1 { blocks[(val - 1) as usize].clone() } else { vec![0xEE; size] };
                    value.resize(size, 0);
                    Some(DataBlock { index: pj["block"]["i"].as_u64().unwrap(), value, nodes: mk_nodes(&pj["block"]["nodes"]) })
                } else { None };
                let upgrade = if pj["hasup"] == true {
                    let sj = &pj["up"]["sig"];
                    let n = sj[1].as_u64().unwrap();
                    let signature = match sj[0].as_str().unwrap() {
                        "true" | "other" => {
                            let t = ref_tree(l, &blocks[..n as usize]).unwrap();
                            let msg = ref_signable(l, &ref_tree_hash(l, &t), n, 0);
                            if sj[0] == "true" { sign_ref(&msg) } else {
                                use ed25519_dalek::Signer;
                                other_key_pair(3).secret.unwrap().sign(&msg).to_bytes().to_vec()
                            }
                        }
                        _ => vec![0x11; 64],
                    };
                    Some(DataUpgrade { start: pj["up"]["start"].as_u64().unwrap(), length: pj["up"]["length"].as_u64().unwrap(),
                        nodes: mk_nodes(&pj["up"]["nodes"]), additional_nodes: vec![], signature })
                } else { None };
                let hash = if pj["hashash"] == true {
                    Some(DataHash { index: pj["hash"]["i"].as_u64().unwrap(), nodes: mk_nodes(&pj["hash"]["nodes"]) })
                } else { None };
                let proof = hypercore::Proof { fork: pj["fork"].as_u64().unwrap(), block, hash, seek: None, upgrade };
                let ret = rep.apply_proof(&proof);
                let accepted = ret["t"] == "ok" && ret["applied"] == true;
                n += 1;
                // whatever the crate accepted must be content of the writer's log (compared directly
                // between the two cores' data: no model involved)
                let mut unsound: Vec<String> = vec![];
                if accepted {
                    let len = rep.len();
                    if len > wl {
                        unsound.push(format!("length {len} beyond the writer's {wl}"));
                    }
                    let bytes: u64 = sizes[..(len.min(wl) as usize)].iter().sum();
                    let info_bytes = rep.hc.as_ref().map(|h| h.info().byte_length).unwrap_or(0);
                    if info_bytes != bytes {
                        unsound.push(format!("byte length {info_bytes} but the writer's first {len} blocks have {bytes}"));
                    }
                    for i in 0..len.min(wl) {
                        if rep.has(i).unwrap_or(false) {
                            match rep.get_raw(i) {
                                Ok(Some(v)) if v == blocks[i as usize] => {}
                                other => unsound.push(format!("block {i} reads {:?}", other.map(|o| o.map(|v| v.len())))),
                            }
                        }
                    }
                }
                if accepted != (a["ok"] == true) || !unsound.is_empty() {
                    dis.push(json!({"hist":j["hist"],"b":b,"alt":pj,"spec_accepts":a["ok"],"crate":ret,"unsound":unsound}));
                }
                if accepted {
                    let (c2, _) = Core::open("r", VDisk::from_images(base.clone()));
                    rep = c2;
                }
            }
            (local, shape_diff, dis, n)
        }));
        match r {
            Ok((local, sd, dis, n)) => {
                honest_refused.extend(local);
                if let Some(s) = sd { shape_diffs.push(s); }
                disagreements.extend(dis);
                decisions += n;
            }
            Err(p) => honest_refused.push(json!({"what":"panic","line":lines,"msg":panic_json(p)})),
        }
    }
    let unsound: Vec<&Value> = disagreements.iter().filter(|d| !d["unsound"].as_array().unwrap().is_empty()).collect();
    let j = json!({"unsound": unsound.len(), "unsound_samples": unsound.iter().take(5).collect::<Vec<_>>(),
        "lines": lines, "decisions": decisions, "shape_diffs": shape_diffs.len(), "shape_diff_samples": shape_diffs.iter().take(5).collect::<Vec<_>>(),
        "disagreements": disagreements.len(), "disagreement_samples": disagreements.iter().take(8).collect::<Vec<_>>(),
        "problems": honest_refused.len(), "problem_samples": honest_refused.iter().take(8).collect::<Vec<_>>()});
    std::fs::write(out, serde_json::to_string_pretty(&j).unwrap()).unwrap();
}
