mod abs;
mod checks;
mod codec;
mod layout;
mod matrix;
mod core;
mod rec;
mod repl;
mod shared;
mod vstore;

fn main() {
    // panics inside the code under test are data, not noise
    if std::env::var("HCV_VERBOSE").is_err() {
        std::panic::set_hook(Box::new(|_| {}));
    }
    let args: Vec<String> = std::env::args().collect();
    if args.len() < 2 {
        eprintln!("usage: hcv <abs|...> [options]");
        std::process::exit(2);
    }
    match args[1].as_str() {
        "abs" => abs::run(&args[2..]),
        "replay" => abs::run_replay(&args[2..]),
        "bfreplay" => abs::run_bfreplay(&args[2..]),
        "repl" => repl::run(&args[2..]),
        "golden" => checks::golden(&args[2..]),
        "matrix" => matrix::run(&args[2..]),
        "shared" => shared::run(&args[2..]),
        "treecheck" => checks::treecheck(&args[2..]),
        "wirecheck" => checks::wirecheck(&args[2..]),
        "foreign" => checks::foreign(&args[2..]),
        "merkle" => checks::merkle(&args[2..]),
        "seekreplay" => checks::seekreplay(&args[2..]),
        x => {
            eprintln!("unknown subcommand {x}");
            std::process::exit(2);
        }
    }
}
