//! Trace recorder: ndjson lines, plus a watchdog that turns a hang inside the code under test
//! into a logged `hang` result (a hang cannot be cancelled in-process).
use serde_json::{json, Value};
use std::io::Write;
use std::sync::atomic::{AtomicU64, Ordering};
use std::sync::{Arc, Mutex};
use std::time::{Duration, SystemTime, UNIX_EPOCH};

pub struct RecInner {
    pub lines: Vec<String>,
    pub path: String,
    /// event that will be written with ret = hang if the watchdog fires
    pub pending: Option<Value>,
    pub counters: serde_json::Map<String, Value>,
}

#[derive(Clone)]
pub struct Rec(pub Arc<Mutex<RecInner>>);

static OP_STARTED: AtomicU64 = AtomicU64::new(0);
/// last time anything was recorded: a driver that stops recording for a long time is stuck in a
/// call into the code under test that was not individually bracketed
static LAST_ACTIVITY: AtomicU64 = AtomicU64::new(0);

fn now_ms() -> u64 {
    SystemTime::now()
        .duration_since(UNIX_EPOCH)
        .unwrap()
        .as_millis() as u64
}

impl Rec {
    pub fn new(path: &str, hang_secs: u64) -> Rec {
        let r = Rec(Arc::new(Mutex::new(RecInner {
            lines: vec![],
            path: path.to_string(),
            pending: None,
            counters: serde_json::Map::new(),
        })));
        // the clock of the "stuck" rule starts now: a driver can hang in the code under test before
        // it has recorded anything (history generation executes operations to learn lengths)
        LAST_ACTIVITY.store(now_ms(), Ordering::SeqCst);
        let w = r.clone();
        std::thread::spawn(move || loop {
            std::thread::sleep(Duration::from_millis(250));
            let st = OP_STARTED.load(Ordering::SeqCst);
            let la = LAST_ACTIVITY.load(Ordering::SeqCst);
            let stuck = la != 0 && now_ms() - la > (hang_secs * 4 + 30) * 1000;
            if (st != 0 && now_ms() - st > hang_secs * 1000) || stuck {
                let mut g = w.0.lock().unwrap();
                if let Some(mut p) = g.pending.take() {
                    p["ret"] = json!({"t":"hang"});
                    p["open"] = json!({"t":"hang"});
                    let s = serde_json::to_string(&p).unwrap();
                    g.lines.push(s);
                } else {
                    // no event of any trace specification: the run is rejected at this line
                    g.lines.push(r#"{"e":"hang","what":"a call into the code under test did not return"}"#.to_string());
                }
                g.count("hangs", 1);
                g.flush();
                eprintln!("hcv: watchdog fired, trace written");
                std::process::exit(0);
            }
        });
        r
    }
    /// a recorder without watchdog thread (for scratch captures)
    pub fn plain(path: &str) -> Rec {
        Rec(Arc::new(Mutex::new(RecInner {
            lines: vec![],
            path: path.to_string(),
            pending: None,
            counters: serde_json::Map::new(),
        })))
    }
    pub fn emit(&self, mut v: Value) {
        LAST_ACTIVITY.store(now_ms(), Ordering::SeqCst);
        strip_nulls(&mut v);
        let mut g = self.0.lock().unwrap();
        let s = serde_json::to_string(&v).unwrap();
        g.lines.push(s);
    }
    /// mark the start of a call into the code under test
    pub fn begin(&self, pending: Value) {
        LAST_ACTIVITY.store(now_ms(), Ordering::SeqCst);
        self.0.lock().unwrap().pending = Some(pending);
        OP_STARTED.store(now_ms(), Ordering::SeqCst);
    }
    pub fn end(&self) {
        OP_STARTED.store(0, Ordering::SeqCst);
        self.0.lock().unwrap().pending = None;
    }
    pub fn count(&self, k: &str, n: u64) {
        LAST_ACTIVITY.store(now_ms(), Ordering::SeqCst);
        self.0.lock().unwrap().count(k, n);
    }
    pub fn finish(&self) {
        self.0.lock().unwrap().flush();
    }
    pub fn len(&self) -> usize {
        self.0.lock().unwrap().lines.len()
    }
}

/// TLC's JSON module cannot represent null: drop null members, replace null elements by 0.
pub fn strip_nulls(v: &mut Value) {
    match v {
        Value::Object(m) => {
            let keys: Vec<String> = m.iter().filter(|(_, x)| x.is_null()).map(|(k, _)| k.clone()).collect();
            for k in keys {
                m.remove(&k);
            }
            for (_, x) in m.iter_mut() {
                strip_nulls(x);
            }
        }
        Value::Array(a) => {
            for x in a.iter_mut() {
                if x.is_null() {
                    *x = json!(0);
                } else {
                    strip_nulls(x);
                }
            }
        }
        _ => {}
    }
}

impl RecInner {
    pub fn count(&mut self, k: &str, n: u64) {
        let cur = self.counters.get(k).and_then(|v| v.as_u64()).unwrap_or(0);
        self.counters.insert(k.to_string(), json!(cur + n));
    }
    pub fn flush(&mut self) {
        let mut f = std::io::BufWriter::new(std::fs::File::create(&self.path).unwrap());
        for l in &self.lines {
            f.write_all(l.as_bytes()).unwrap();
            f.write_all(b"\n").unwrap();
        }
        f.flush().unwrap();
        let mut c = self.counters.clone();
        c.insert("lines".into(), json!(self.lines.len()));
        std::fs::write(
            format!("{}.stats.json", self.path),
            serde_json::to_string(&Value::Object(c)).unwrap(),
        )
        .unwrap();
    }
}
